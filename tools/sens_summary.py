#!/venv/bin/python
"""Summarise seeded/*/meta.json: how many seeded changes exist, how many are caught by the quick tier of their own property."""
import glob, json, os
V = os.path.dirname(os.path.dirname(os.path.abspath(__file__)))
tot = caught = 0
missed, norun, incon = [], [], []
for mp in sorted(glob.glob(os.path.join(V, "seeded", "*", "meta.json"))):
    m = json.load(open(mp))
    tot += 1
    r = m.get("checks_run", {}).get(m["breaks_property"])
    if r is None:
        norun.append(m["name"])
    elif r["exit"] == 1:
        caught += 1
    elif r["exit"] == 0:
        missed.append(m["name"])
    else:
        incon.append(m["name"])
print(f"{tot} seeded changes; {caught} caught by the quick tier of their own property; missed: {missed or 'none'}; inconclusive: {incon or 'none'}; not run: {norun or 'none'}")
