#!/bin/bash
# tools/confirm_mutant.sh <ID> <k> [test files...]
# Re-confirms a seeded change on the current /repo HEAD inside its scratch worktree and files it under seeded/<ID>-<k>/.
id=$1; k=$2; shift 2; tests=${@:-tests/test_core.py}
wt=/tmp/mut/${id}${WSUF:-}; out=$wt/out; dst=/verif/seeded/$id-$k
cd $wt || exit 3
git checkout -q -- . && git checkout -q --detach $(git -C /repo rev-parse HEAD) || exit 3
export PYTHONPATH=$wt/src:/tmp/genjax_env
timeout 900 /venv/bin/python $out/demo$k.py > /tmp/confirm_clean_$id-$k.log 2>&1; rc_clean=$?
if ! git apply $out/patch$k.diff 2>/tmp/confirm_apply_$id-$k.log; then
  echo "$id-$k: patch does not apply on HEAD: $(head -2 /tmp/confirm_apply_$id-$k.log | tr '\n' ' ')"; exit 4
fi
git diff > /tmp/confirm_patch_$id-$k.diff
timeout 900 /venv/bin/python $out/demo$k.py > /tmp/confirm_mut_$id-$k.log 2>&1; rc_mut=$?
timeout 1800 /venv/bin/python -m pytest -q --no-cov -p jaxcompat -p no:cacheprovider -n 4 $tests > /tmp/confirm_tests_$id-$k.log 2>&1; rc_tests=$?
tsum=$(tail -1 /tmp/confirm_tests_$id-$k.log)
git checkout -q -- .
echo "$id-$k: demo clean rc=$rc_clean, demo with change rc=$rc_mut, tests rc=$rc_tests ($tsum)"
if [ $rc_clean -eq 0 ] && [ $rc_mut -ne 0 ] && [ $rc_tests -eq 0 ]; then
  mkdir -p $dst && cp /tmp/confirm_patch_$id-$k.diff $dst/patch.diff && cp $out/demo$k.py $dst/demo.py && cp $out/meta$k.json $dst/agent_meta.json
  tail -5 /tmp/confirm_mut_$id-$k.log > $dst/demo_output_with_change.txt
  echo "{\"confirmed_on\": \"$(git -C /repo rev-parse --short HEAD)\", \"demo_clean_rc\": $rc_clean, \"demo_changed_rc\": $rc_mut, \"tests\": \"$tests\", \"tests_result\": \"$tsum\"}" > $dst/confirm.json
  echo "  -> filed under $dst"
fi
