#!/venv/bin/python
"""Regenerate MANIFEST.json from harness/plans.py (single source of truth for what is claimed)."""
import json, os, sys
sys.path.insert(0, os.path.dirname(os.path.dirname(os.path.abspath(__file__))))
from harness import plans

props = [json.loads(l) for l in open(os.path.join(os.path.dirname(__file__), "..", "properties.jsonl"))]
checks, na = [], []
for p in props:
    pid = p["id"]
    if pid in plans.META:
        m = plans.META[pid]
        checks.append({
            "property_id": pid,
            "quick_cmd": f"./check {pid} --tier quick",
            "thorough_cmd": f"./check {pid} --tier thorough",
            "evidence_file": f"evidence/{pid}.json",
            "replay_cmd_template": f"./check {pid} --replay {{path}}",
            "engine": "harness",
            "level_claimed": {
                "category": "exploration",
                "text": m.get("level_text", "Generated-input search against an explicit, independent oracle; holds on everything explored within the stated bounds, absence is not established."),
                "design_ref": f"DESIGN.md section 6, {pid}",
            },
            "level_note": m.get("level_note", "Trusted base: harness/jaxcompat.py (JAX 0.7 internal-API shim on JAX 0.11), numpy/scipy reference implementations, Hypothesis; float32-vs-float64 tolerances of DESIGN.md 5.1; statistical decisions two-stage at 1e-3 x 1e-9."),
            "technique": m.get("technique", "property-based testing (Hypothesis) against a reference model"),
        })
    else:
        na.append({"property_id": pid, "reason": plans.NOT_CLAIMED.get(pid, "check not built yet in this round; no claim is made")})
man = {
    "version": 1,
    "setup_cmd": "bash tools/setup.sh",
    "hooks": {
        "guard": "GENJAX_VERIF",
        "enable": "no source hooks exist: the harness patches JAX (harness/jaxcompat.py), never genjax; GENJAX_VERIF is reserved and unused",
        "baseline_off_cmd": "cd /repo && /venv/bin/python -m pytest -ra -q -p no:cacheprovider --timeout=900 --continue-on-collection-errors",
        "source_commits": [],
        "add_only": True,
    },
    "engines": [{"name": "harness", "path": "harness/engine.py", "serves_properties": [c["property_id"] for c in checks],
                 "kind_free_text": "Hypothesis-driven generated cases + exhaustive enumeration of finite domains, sharded over 16 worker processes, explicit reference oracles (numpy/scipy), collect-then-bucket failure reporting with replay files"}],
    "checks": checks,
    "not_applicable": na,
    "notes": "All verdicts are about genjax source in /repo executed on JAX 0.11.1 through the harness-side compat layer (DESIGN.md section 2). Exit 2 = harness error / inconclusive, never a violation. Defects found and repaired are listed as 'fixed:' lines in known_findings.jsonl.",
}
json.dump(man, open(os.path.join(os.path.dirname(__file__), "..", "MANIFEST.json"), "w"), indent=1)
print("checks:", [c["property_id"] for c in checks], "not_applicable:", len(na))
