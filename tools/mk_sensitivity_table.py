#!/venv/bin/python
"""Render seeded/*/meta.json as the markdown table of DESIGN.md section 0.6 (replaces the text between the markers)."""
import glob, json, os, re
V = os.path.dirname(os.path.dirname(os.path.abspath(__file__)))
rows = []
for mp in sorted(glob.glob(os.path.join(V, "seeded", "*", "meta.json"))):
    m = json.load(open(mp))
    runs = m.get("checks_run", {})
    det = ", ".join(f"{c} ({(r['buckets'] or ['?'])[0].split('|')[0]})" for c, r in sorted(runs.items()) if r["exit"] == 1) or "-"
    miss = ", ".join(c for c, r in sorted(runs.items()) if r["exit"] == 0) or "-"
    inc = ", ".join(c for c, r in sorted(runs.items()) if r["exit"] not in (0, 1))
    summ = (m.get("summary") or "").replace("|", "/").replace("\n", " ")
    summ = summ[:230] + ("..." if len(summ) > 230 else "")
    rows.append(f"| {m['name']} | {m.get('breaks_property')} | {summ} | {det} | {miss}{' ; inconclusive: ' + inc if inc else ''} |")
table = "| seeded change | property | what it does | caught by (quick tier, first bucket) | run and not caught |\n|---|---|---|---|---|\n" + "\n".join(rows)
p = os.path.join(V, "DESIGN.md")
s = open(p).read()
if "SENSITIVITY_TABLE_PLACEHOLDER" in s:
    s = s.replace("SENSITIVITY_TABLE_PLACEHOLDER", "<!-- sensitivity-table-begin -->\n" + table + "\n<!-- sensitivity-table-end -->")
else:
    s = re.sub(r"<!-- sensitivity-table-begin -->.*<!-- sensitivity-table-end -->", "<!-- sensitivity-table-begin -->\n" + table.replace("\\", "\\\\") + "\n<!-- sensitivity-table-end -->", s, flags=re.S)
open(p, "w").write(s)
print(len(rows), "rows")
