#!/bin/bash
# tools/mutant_eval.sh <worktree> <patch file> <tier> <check id>...   (sensitivity runs, DESIGN.md section 9)
# Applies the patch inside the scratch worktree (never in /repo), runs the checks against that tree, reverts.
wt=$1; patch=$2; tier=$3; shift 3
cd "$wt" && git checkout -q -- . && git checkout -q --detach $(git -C /repo rev-parse HEAD) && git apply "$patch" || { echo "cannot apply $patch"; exit 3; }
out=/verif/.work/mutant-out/$(basename "$wt")-$(basename "$patch" .diff)
mkdir -p "$out"
cd /verif
for id in "$@"; do
  GENJAX_SRC=$wt/src VERIF_OUTDIR=$out ./check $id --tier $tier > "$out/$id.log" 2>&1
  rc=$?
  echo "MUTANT $(basename $wt)/$(basename $patch) check=$id exit=$rc $(grep -c '^VIOLATION' $out/$id.log) violation line(s); first: $(grep -m1 -A1 '^VIOLATION' $out/$id.log | tail -1 | cut -c1-160)"
done
cd "$wt" && git checkout -q -- .
