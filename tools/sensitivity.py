#!/venv/bin/python
"""tools/sensitivity.py <seeded-name> <check id>... [--tier quick]

Sensitivity run for one confirmed seeded change (DESIGN.md 0.6 / 9): creates a scratch git worktree of /repo HEAD under
/dev/shm, applies seeded/<name>/patch.diff there, runs the given checks against that tree (GENJAX_SRC, output redirected
with VERIF_OUTDIR so that /verif/evidence is not touched), records the outcome in seeded/<name>/meta.json, removes the
worktree.  /repo itself is never modified.
"""
import json, os, re, subprocess, sys, shutil

VERIF = os.path.dirname(os.path.dirname(os.path.abspath(__file__)))
HARN = os.environ.get("SENS_HARNESS", VERIF)  # a frozen copy of /verif (so that edits made meanwhile do not leak into a batch)
name, ids = sys.argv[1], [a for a in sys.argv[2:] if not a.startswith("--")]
tier = "thorough" if "--thorough" in sys.argv else "quick"
sd = os.path.join(VERIF, "seeded", name)
wt = f"/dev/shm/sens-{name}-{os.getpid()}"
out = os.path.join(VERIF, ".work", "mutant-out", name)
os.makedirs(out, exist_ok=True)
subprocess.run(["git", "-C", "/repo", "worktree", "add", "-q", "--detach", wt, "HEAD"], check=True)
try:
    subprocess.run(["git", "-C", wt, "apply", os.path.join(sd, "patch.diff")], check=True)
    results = {}
    for cid in ids:
        env = dict(os.environ, GENJAX_SRC=os.path.join(wt, "src"), VERIF_OUTDIR=out)
        p = subprocess.run([os.path.join(HARN, "check"), cid, "--tier", tier], cwd=HARN, env=env, capture_output=True, text=True)
        open(os.path.join(out, f"{cid}.log"), "w").write(p.stdout + p.stderr)
        buckets = re.findall(r"^  bucket=(\S+)", p.stdout, flags=re.M)
        results[cid] = {"exit": p.returncode, "violation_lines": p.stdout.count("\nVIOLATION") + p.stdout.startswith("VIOLATION"), "buckets": buckets[:6], "tier": tier}
        print(name, cid, results[cid])
finally:
    subprocess.run(["git", "-C", "/repo", "worktree", "remove", "--force", wt])
meta_p = os.path.join(sd, "meta.json")
meta = json.load(open(meta_p)) if os.path.exists(meta_p) else {}
meta.setdefault("checks_run", {}).update(results)
meta["detected_by"] = sorted(c for c, r in meta["checks_run"].items() if r["exit"] == 1)
meta["missed_by"] = sorted(c for c, r in meta["checks_run"].items() if r["exit"] == 0)
json.dump(meta, open(meta_p, "w"), indent=1)
