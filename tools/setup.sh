#!/bin/bash
# Offline setup: make sure hypothesis is importable in /venv, then run the compat self-test.
cd "$(dirname "$0")/.." || exit 2
PY=/venv/bin/python
if ! $PY -c "import hypothesis" 2>/dev/null; then
  $PY -m pip install -q --no-index --find-links /opt/veriftools/wheels hypothesis || exit 2
fi
export PYTHONHASHSEED=0 PYTHONDONTWRITEBYTECODE=1 JAX_PLATFORMS=cpu TF_CPP_MIN_LOG_LEVEL=3
exec $PY -m harness.selftest
