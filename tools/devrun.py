#!/venv/bin/python
"""tools/devrun.py <ID> <n> [force] [--disc] [--seed N]: run a property's classify on n generated programs (development aid, single process)."""
import sys, os, json, collections
sys.path.insert(0, os.path.dirname(os.path.dirname(os.path.abspath(__file__))))
from harness import env, modelir
from harness.engine import Ctx, drive
import importlib
from hypothesis import strategies as st

pid, n = sys.argv[1], int(sys.argv[2])
force = sys.argv[3] if len(sys.argv) > 3 and not sys.argv[3].startswith("--") else None
disc = "--disc" in sys.argv
seed = int(sys.argv[sys.argv.index("--seed") + 1]) if "--seed" in sys.argv else 1
mod = importlib.import_module(f"harness.props.{pid.lower()}")
ctx = Ctx(pid, "quick", seed, 0, 1)
buckets = collections.Counter()
first = {}

def one(case):
    env.reset()
    if pid == "C05":
        out = mod.run_history(case)
    elif pid == "C09":
        out = mod.classify_ir(case)
    else:
        out = mod.classify(case) if pid not in ("C01", "C02", "C04") else mod.classify(case, None, 300)
    fails = out[0] if isinstance(out, tuple) else out
    feats = sorted(modelir.features(case["prog"]))
    print("case", feats, "fails", [b for b, _ in fails][:4], flush=True)
    for b, w in fails:
        buckets[b] += 1
        first.setdefault(b, (w, case))

if pid in ("C02", "C03", "C04"):
    strat = mod.cases(disc, force)
elif pid == "C05":
    strat = mod.histories(force, 6)
elif pid == "C09":
    strat = mod.ir_cases(force)
else:
    strat = st.builds(lambda p, k: {**p, "key": k, "discrete": disc}, modelir.programs(discrete=disc, force=force), st.integers(0, 2**30))
drive(ctx, strat, n, one, "dev")
print("BUCKETS", dict(buckets))
for b, (w, case) in first.items():
    print("==", b, "\n  ", w[:600])
    json.dump(case, open(f"/verif/.work/dev-{pid}-{abs(hash(b)) % 10**6}.json", "w"))
    print("   case ->", f"/verif/.work/dev-{pid}-{abs(hash(b)) % 10**6}.json")
