"""JAX-0.7 internal-API surface on JAX 0.11 (patches jax only; import before genjax)."""
import jax, jax.core as jc
import jax._src.core as sc
import jax._src.interpreters.ad as _ad
import jax.interpreters.ad as pub_ad
import jax._src.flattree as _ft
import jax._src.lax.control_flow.loops as _loops
import jax._src.custom_derivatives, jax._src.shard_map   # define Primitive subclasses

if 'get_aval' not in jc.__dict__: jc.get_aval = getattr(sc, 'get_aval', None) or sc.typeof
if not hasattr(sc, 'get_aval'):   sc.get_aval = sc.typeof
if 'TraceTag' not in jc.__dict__: jc.TraceTag = sc.TraceTag
if 'DropVar' not in jc.__dict__:  jc.DropVar = sc.DropVar
if not hasattr(sc.Var, 'count'):  sc.Var.count = property(lambda self: id(self))

if not hasattr(_ad.Zero, 'from_primal_value'):
    _ad.Zero.from_primal_value = classmethod(
        lambda cls, val: cls(sc.typeof(val).to_tangent_aval()))

class _OldParams(dict):            # what genjax sees as `params`
    __slots__ = ('_extra',)        # legacy keys: visible to [], `in`, .get — hidden from **
    def __init__(self, d, extra): super().__init__(d); self._extra = extra
    def __getitem__(self, k):
        return dict.__getitem__(self, k) if dict.__contains__(self, k) else self._extra[k]
    def __contains__(self, k): return dict.__contains__(self, k) or k in self._extra
    def get(self, k, default=None): return self[k] if k in self else default

class _BindParams(dict):           # works as **params (JAX) and as `subfuns, params = …` (genjax)
    __slots__ = ('_extra',)
    def __iter__(self):
        yield []
        yield _OldParams(self, self._extra)

def _legacy_extra(prim, params):
    if prim is _loops.scan_p and 'ft_in' in params and 'num_consts' not in params:
        consts, carry, xs = params['ft_in'].unpack()
        return {'num_consts': len(consts), 'num_carry': len(carry),
                'linear': (False,) * (len(consts) + len(carry) + len(xs)),
                '_split_transpose': False}
    return {}

def _wrap(cls, orig):
    def gbp(self, params):
        r = orig(self, params)
        if isinstance(r, tuple): return r          # already old-style
        bp = _BindParams(r); bp._extra = _legacy_extra(self, r); return bp
    cls.get_bind_params = gbp
def _subs(c):
    for s in c.__subclasses__():
        yield s; yield from _subs(s)
_wrap(sc.Primitive, sc.Primitive.get_bind_params)
for _c in set(_subs(sc.Primitive)):
    if 'get_bind_params' in _c.__dict__ and _c.__module__.startswith('jax.'):
        _wrap(_c, _c.__dict__['get_bind_params'])

_new_jvp = _ad.jvp
class _OldJvpFun:                                   # ad.jvp(wrapped).call_wrapped(primals, tangents)
    def __init__(self, fun): self.fun = fun
    def call_wrapped(self, primals, tangents):
        f = self.fun; call = f.call_wrapped if hasattr(f, 'call_wrapped') else f
        p = _ft.flatten(tuple(primals)); t = p.update(tuple(tangents))
        out = _new_jvp(lambda *a: call(*a), p, t)
        return list(out[0]), list(out[1])
def _compat_jvp(fun, *args, **kw):
    return _OldJvpFun(fun) if not args and not kw else _new_jvp(fun, *args, **kw)
pub_ad.jvp = _compat_jvp
