"""Model IR: Hypothesis strategy (well-typed by construction) and the genjax builder.  See refmodel.py for the IR."""
from hypothesis import strategies as st

from harness import refmodel

# ---------------------------------------------------------------------------
# strategy
# ---------------------------------------------------------------------------
NEST_KINDS = ("vvdist", "vscan", "scanv", "condv", "vcond")
CONT = ["normal", "normal", "uniform", "exponential", "beta", "gamma"]
DISC = ["flip", "flip", "categorical", "bernoulli"]

fconst = st.floats(-2.0, 2.0, allow_nan=False, width=32).map(lambda x: round(x, 2))
coef = st.sampled_from([-1.5, -1.0, -0.5, 0.5, 1.0, 1.5])


class FnGen:
    """Generates one function body; tracks the kind of every bound variable.

    kinds: 'f' float scalar, 'b' bool scalar, 'i' int scalar, ('F', n) float vector of length n,
           ('B', n) / ('I', n) bool / int vectors."""

    def __init__(self, draw, cfg, plain, steps, is_step=False, n_params=1, kw=()):
        self.draw, self.cfg, self.plain, self.steps = draw, cfg, plain, steps
        self.vars = [(["p", i], "f") for i in range(n_params)] + [(["k", k], "f") for k in kw]
        self.body = []
        self.used = set()
        self.n_sites = 0

    def addr(self):
        a = self.draw(st.sampled_from([x for x in "abcdefghxyz" if x not in self.used]))
        self.used.add(a)
        return a

    # -- expressions -----------------------------------------------------------
    def base_scalar(self):
        d = self.draw
        ref, kind = d(st.sampled_from(self.vars)) if d(st.integers(0, 4)) else (None, None)
        if ref is None:
            return ["c", d(fconst)]
        if kind == "f":
            return ref
        if kind in ("b", "i"):
            return ["fl", ref]
        if len(kind) == 3:  # matrix-valued binding (direct combinator nesting): only its total enters later expressions
            return ["sum", ref if kind[0] == "FM" else ["fl", ref]]
        tag, n = kind
        e = ref if tag == "F" else ["fl", ref]
        return ["sum", e] if d(st.booleans()) else ["idx", e, d(st.integers(0, n - 1))]

    def scalar(self, depth=1):
        d = self.draw
        e = self.base_scalar()
        w = d(st.integers(0, 5))
        if w == 0:
            e = ["aff", d(coef), e, d(fconst)]
        elif w == 1:
            e = ["tanh", e]
        elif w == 2 and depth > 0:
            e = ["add", e, self.scalar(depth - 1)]
        elif w == 3 and depth > 0:
            e = ["mul", ["tanh", e], self.scalar(depth - 1)]
        return e

    def vector(self, n):
        d = self.draw
        cands = [r for r, k in self.vars if k == ("F", n)]
        w = d(st.integers(0, 2))
        if cands and w == 0:
            return ["aff", d(coef), d(st.sampled_from(cands)), d(fconst)]
        if w == 1:
            return ["c", [d(fconst) for _ in range(n)]]
        return ["stack", [self.scalar(0) for _ in range(n)]]

    def pred(self):
        d = self.draw
        bools = [r for r, k in self.vars if k == "b"]
        if bools and d(st.booleans()):
            return d(st.sampled_from(bools))
        return ["gt", self.scalar(0), d(fconst)]

    def dist_params(self, dist):
        d = self.draw
        if dist == "normal":
            return [self.scalar(), ["pos", self.scalar(0)]]
        if dist == "uniform":
            lo = self.scalar(0)
            return [lo, ["add", lo, ["pos", self.scalar(0)]]]
        if dist == "exponential":
            return [["pos", self.scalar(0)]]
        if dist in ("beta", "gamma"):
            return [["pos", self.scalar(0)], ["pos", self.scalar(0)]]
        if dist == "flip":
            return [["prob", self.scalar()]]
        if dist == "bernoulli":
            return [["aff", 2.0, ["tanh", self.scalar()], 0.0]]
        if dist == "categorical":
            k = d(st.integers(2, 3))
            return [["stack", [["aff", 2.0, ["tanh", self.scalar(0)], 0.0] for _ in range(k)]]]
        if dist == "mvnormal":
            return [["stack", [self.scalar(0), self.scalar(0)]], ["c", d(st.sampled_from(refmodel.MVN_COVS))]]
        if dist == "dirichlet":
            k = d(st.integers(2, 3))
            return [["stack", [["pos", self.scalar(0)] for _ in range(k)]]]
        raise ValueError(dist)

    def kind_of(self, dist, params):
        if dist in ("flip",):
            return "b"
        if dist in ("bernoulli", "categorical"):
            return "i"
        if dist == "mvnormal":
            return ("F", 2)
        if dist == "dirichlet":
            return ("F", len(params[0][1]))
        return "f"

    def pick_dist(self):
        pool = DISC if self.cfg["discrete"] else (CONT + DISC[:2] + self.cfg.get("event_dists", ["mvnormal", "dirichlet"]))
        return self.draw(st.sampled_from(pool))

    # -- statements ------------------------------------------------------------
    def stmt(self, allow):
        d = self.draw
        ok = {"draw": True, "vdist": True, "call": bool(self.plain), "vmap": any(not s["kw"] and not s.get("det") for s in self.plain.values()),
              "scan": bool(self.steps), "cond": bool(self.cfg["cond_pairs"]) and all(p[0] in self.plain for p in self.cfg["cond_pairs"]),
              "nest": True}
        kind = d(st.sampled_from([k for k in allow if ok[k]] or ["draw"]))
        a = self.addr()
        if kind == "draw":
            dist = self.pick_dist()
            ps = self.dist_params(dist)
            self.body.append(["draw", a, dist, ps])
            self.vars.append((["v", a], self.kind_of(dist, ps)))
            self.n_sites += 1
        elif kind == "vdist":
            dist = d(st.sampled_from(["flip", "bernoulli"] if self.cfg["discrete"] else ["normal", "exponential", "flip", "gamma"]))
            n = d(st.integers(2, 3))
            ps = self.dist_params(dist)
            axes = [d(st.sampled_from([0, None])) for _ in ps]
            if all(ax is None for ax in axes):
                axes[0] = 0
            ps2 = []
            for p, ax in zip(ps, axes):
                if ax == 0:  # lane-varying parameter: apply the (elementwise) constraint map to a vector
                    wrap = p[0] if p[0] in ("pos", "prob") else None
                    v = self.vector(n)
                    ps2.append([wrap, v] if wrap else (["aff", 2.0, ["tanh", v], 0.0] if dist == "bernoulli" else v))
                else:
                    ps2.append(p)
            self.body.append(["vdist", a, dist, axes, n, ps2])
            self.vars.append((["v", a], ({"flip": "B", "bernoulli": "I"}.get(dist, "F"), n)))
            self.n_sites += n
        elif kind == "call":
            f = d(st.sampled_from(sorted(self.plain)))
            sig = self.plain[f]
            args = [self.scalar() for _ in range(sig["np"])]
            kw = {k: self.scalar(0) for k in sig["kw"]}
            self.body.append(["call", a, f, args, kw])
            self.vars.append((["v", a], "f"))
            self.n_sites += sig["sites"]
        elif kind == "vmap":
            f = d(st.sampled_from(sorted(k for k, s in self.plain.items() if not s["kw"] and not s.get("det"))))
            sig = self.plain[f]
            n = d(st.integers(2, 3))
            axes = [d(st.sampled_from([0, 0, None])) for _ in range(sig["np"])]
            args = [self.vector(n) if ax == 0 else self.scalar(0) for ax in axes]
            self.body.append(["vmap", a, f, axes, n, args])
            self.vars.append((["v", a], ("F", n)))
            self.n_sites += n * sig["sites"]
        elif kind == "scan":
            f = d(st.sampled_from(sorted(self.steps)))
            L = d(st.integers(1, 3))
            self.body.append(["scan", a, f, L, self.scalar(0), self.vector(L)])
            self.vars.append((["sc", a], "f"))
            self.vars.append((["so", a], ("F", L)))
            self.n_sites += L * self.steps[f]["sites"]
        elif kind == "nest":
            self.nest_stmt(a)
        elif kind == "cond":
            ft, ff = d(st.sampled_from(sorted(self.cfg["cond_pairs"])))
            sig = self.plain[ft]
            stmt = ["cond", a, self.pred(), ft, ff, [self.scalar() for _ in range(sig["np"])]]
            if sig["kw"]:
                stmt.append({k: self.scalar(0) for k in sig["kw"]})  # keyword arguments forwarded to both branches
            self.body.append(stmt)
            self.vars.append((["v", a], "f"))
            self.n_sites += sig["sites"]


def _lanewise(p, v, dist):
    """Apply the (elementwise) constraint map of the scalar parameter expression p to the array expression v."""
    wrap = p[0] if p[0] in ("pos", "prob") else None
    return [wrap, v] if wrap else (["aff", 2.0, ["tanh", v], 0.0] if dist == "bernoulli" else v)


def _nest_stmt(self, a):
    """Combinators applied directly to combinators (no @gen function in between):
    vvdist  dist.vmap(in).vmap(out)            vscan  Scan(step).vmap((0, None))      scanv  Scan(step.vmap((0, 0)))
    condv   Cond(fT.vmap(ax), fF.vmap(ax))     vcond  Cond(fT, fF).vmap((0,) + ax)    (per-lane predicate)"""
    d = self.draw
    pairs = [p for p in self.cfg["cond_pairs"] if p[0] in self.plain and not self.plain[p[0]]["kw"]]
    kinds = ["vvdist"] + (["vscan", "scanv"] if self.steps else []) + (["condv", "vcond", "vcond"] if pairs else [])
    want = self.cfg.get("nest_kinds")
    kinds = [k for k in kinds if not want or k in want] or kinds
    kind = d(st.sampled_from(kinds))
    if kind == "vvdist":
        dist = d(st.sampled_from(["flip", "bernoulli"] if self.cfg["discrete"] else ["normal", "exponential", "flip", "gamma"]))
        n_out, n_in = d(st.sampled_from([(2, 3), (3, 2), (2, 2)]))
        ps = self.dist_params(dist)
        lay = [d(st.sampled_from(["s", "i", "o", "m"])) for _ in ps]
        if not any(x in "om" for x in lay):
            lay[0] = "m" if lay[0] == "i" else "o"
        if not any(x in "im" for x in lay):
            lay[-1] = "m" if lay[-1] == "o" else "i"
        ps2 = []
        for p, l in zip(ps, lay):
            if l == "s":
                ps2.append(p)
            elif l == "m":
                ps2.append(_lanewise(p, ["stack", [self.vector(n_in) for _ in range(n_out)]], dist))
            else:
                ps2.append(_lanewise(p, self.vector(n_in if l == "i" else n_out), dist))
        self.body.append(["vvdist", a, dist, lay, n_out, n_in, ps2])
        self.vars.append((["v", a], ({"flip": "BM", "bernoulli": "IM"}.get(dist, "FM"), n_out, n_in)))
        self.n_sites += n_out * n_in
    elif kind in ("vscan", "scanv"):
        f = d(st.sampled_from(sorted(self.steps)))
        n, L = d(st.sampled_from([(2, 3), (3, 2), (2, 1), (2, 2)]))
        init = self.vector(n)
        xs = self.vector(L) if kind == "vscan" else ["stack", [self.vector(n) for _ in range(L)]]
        self.body.append([kind, a, f, n, L, init, xs])
        self.vars.append((["sc", a], ("F", n)))
        self.vars.append((["so", a], ("FM", n, L) if kind == "vscan" else ("FM", L, n)))
        self.n_sites += n * L * self.steps[f]["sites"]
    else:
        ft, ff = d(st.sampled_from(sorted(pairs)))
        sig = self.plain[ft]
        n = d(st.integers(2, 3))
        axes = [d(st.sampled_from([0, 0, None])) for _ in range(sig["np"])]
        if kind == "condv" and all(ax is None for ax in axes):
            axes[0] = 0
        args = [self.vector(n) if ax == 0 else self.scalar(0) for ax in axes]
        if kind == "condv":
            pred = self.pred()
        else:
            bvs = [r for r, k in self.vars if k == ("B", n)]
            pred = d(st.sampled_from(bvs)) if bvs and d(st.booleans()) else ["gt", self.vector(n), d(fconst)]
        self.body.append([kind, a, pred, ft, ff, n, axes, args])
        self.vars.append((["v", a], ("F", n)))
        self.n_sites += n * sig["sites"]


FnGen.nest_stmt = _nest_stmt


def _gen_fn(draw, cfg, plain, steps, is_step, n_stmts, allow, n_params=None, kw=(), first=None):
    n_params = 2 if is_step else (n_params if n_params is not None else draw(st.integers(1, 2)))
    g = FnGen(draw, cfg, plain, steps, is_step, n_params, kw)
    if first:
        g.stmt([first])
    for _ in range(n_stmts):
        g.stmt(allow)
    ret = ["pair", g.scalar(), g.scalar()] if is_step else g.scalar()
    return {"np": n_params, "kw": list(kw), "body": g.body, "ret": ret}, g.n_sites


def _perturb_fn(draw, fn):
    """Same structure and addresses, different constants (for the other Cond branch)."""

    delta = draw(st.sampled_from([-1.0, -0.5, 0.5, 1.0]))  # one shift per function: shared sub-expressions stay shared

    def pe(e):
        if not isinstance(e, list):
            return e
        if e and e[0] == "c" and not isinstance(e[1], list):
            return ["c", round(e[1] + delta, 2)]
        return [pe(x) for x in e]

    body = [[s[0], s[1]] + [pe(x) for x in s[2:]] for s in fn["body"]]
    # in a third of the twins one normal site becomes a uniform on (loc, loc + scale): the branches of the Cond then have
    # different supports at a shared address (the value visible from one branch can be impossible under the other)
    normals = [i for i, s in enumerate(body) if s[0] == "draw" and s[2] == "normal"]
    if normals and draw(st.integers(0, 2)) == 0:
        i = draw(st.sampled_from(normals))
        m, sd = body[i][3]
        body[i] = ["draw", body[i][1], "uniform", [m, ["add", m, sd]]]
    return {"np": fn["np"], "kw": list(fn["kw"]), "body": body, "ret": pe(fn["ret"])}


@st.composite
def programs(draw, discrete=False, max_sites=14, combinators=("call", "vmap", "scan", "cond", "vdist", "nest"), kwargs=True,
             event_dists=("mvnormal", "dirichlet"), force=None, nest_kinds=None):
    """A whole program.  `force`: a combinator kind that main must contain (biasing, by construction)."""
    cfg = {"discrete": discrete, "cond_pairs": [], "event_dists": list(event_dists), "nest_kinds": nest_kinds}
    if force in NEST_KINDS:
        cfg["nest_kinds"], force = [force], "nest"
    fns, order, plain, steps = {}, [], {}, {}
    # leaf functions
    n_leaf = draw(st.integers(1, 2))
    for i in range(n_leaf):
        name = f"L{i}"
        use_kw = kwargs and i == 0 and draw(st.integers(0, 2)) == 0
        fn, sites = _gen_fn(draw, cfg, {}, {}, False, draw(st.integers(1, 2 if discrete else 3)), ["draw", "draw", "vdist"] if "vdist" in combinators else ["draw"],
                            kw=("sk",) if use_kw else ())
        fns[name], plain[name] = fn, {"np": fn["np"], "kw": fn["kw"], "sites": sites}
        order.append(name)
    if "call" in combinators and (force == "detcall" or draw(st.integers(0, 3)) == 0):
        # a generative function without random choices (a deterministic helper traced with `@`): its return value still depends
        # on its arguments, so every GFI operation has to re-execute it when they change
        fns["D0"], plain["D0"] = {"np": 1, "kw": [], "body": [], "ret": ["aff", draw(coef), ["tanh", ["p", 0]], draw(fconst)]}, {"np": 1, "kw": [], "sites": 0, "det": True}
        order.append("D0")
    if "cond" in combinators:
        base = draw(st.sampled_from([o for o in order if o != "D0"]))
        if True:
            alt = base + "x"
            fns[alt] = _perturb_fn(draw, fns[base])
            plain[alt] = dict(plain[base])
            order.append(alt)
            cfg["cond_pairs"].append((base, alt))
    if "scan" in combinators:
        allow = ["draw", "draw"] + (["call"] if any(not s["kw"] for s in plain.values()) else [])
        fn, sites = _gen_fn(draw, cfg, {k: v for k, v in plain.items()}, {}, True, draw(st.integers(1, 2)), allow)
        fns["S0"], steps["S0"] = fn, {"sites": sites}
        order.append("S0")
        if draw(st.integers(0, 2)) == 0 and sites <= 3:
            # a step function that itself scans / vectorizes (Scan of a function that contains a Scan or a Vmap)
            fn1, sites1 = _gen_fn(draw, cfg, {k: v for k, v in plain.items() if not v["kw"] and not v.get("det")}, {"S0": steps["S0"]}, True, 1, ["scan", "scan", "vmap", "vdist"])
            fns["S1"], steps["S1"] = fn1, {"sites": sites1}
            order.append("S1")
    # mid-level function (depth 2)
    avail = [c for c in combinators if c != "cond" or cfg["cond_pairs"]]
    avail = [c for c in avail if c != "scan" or steps]
    condm = force == "condm" and "cond" in combinators  # forced: a Cond over two mid-level functions that call sub-functions
    if condm:
        force = None
    if draw(st.booleans()) or condm:
        fn, sites = _gen_fn(draw, cfg, dict(plain), steps, False, draw(st.integers(1, 2)), ["draw"] + avail, first=("call" if condm else None))
        fns["M0"], plain["M0"] = fn, {"np": fn["np"], "kw": [], "sites": sites}
        order.append("M0")
        if "cond" in combinators and (draw(st.booleans()) or condm):
            # a Cond whose branches are mid-level functions: both branches call the same generative functions / combinators
            # at the same addresses (with different arguments), i.e. shared addresses below the first level of the branches
            fns["M0x"] = _perturb_fn(draw, fn)
            plain["M0x"] = dict(plain["M0"])
            order.append("M0x")
            cfg["cond_pairs"].append(("M0", "M0x"))
    n_main = draw(st.integers(1, 3 if discrete else 4))
    g = FnGen(draw, cfg, dict(plain), steps, False, draw(st.integers(1, 2)), ("t",) if kwargs and draw(st.integers(0, 3)) == 0 else ())
    if force == "indicator" and cfg["cond_pairs"]:
        # mixture-indicator shape: a discrete choice decides which branch of a Cond is taken
        a = g.addr()
        g.body.append(["draw", a, "flip", [["prob", g.scalar(0)]]])
        g.vars.append((["v", a], "b"))
        ft, ff = draw(st.sampled_from(sorted(cfg["cond_pairs"])))
        c = g.addr()
        g.body.append(["cond", c, ["v", a], ft, ff, [g.scalar() for _ in range(plain[ft]["np"])]] + ([{k: g.scalar(0) for k in plain[ft]["kw"]}] if plain[ft]["kw"] else []))
        g.vars.append((["v", c], "f"))
        g.n_sites += 1 + plain[ft]["sites"]
    elif condm:
        c = g.addr()
        g.body.append(["cond", c, g.pred(), "M0", "M0x", [g.scalar() for _ in range(plain["M0"]["np"])]])
        g.vars.append((["v", c], "f"))
        g.n_sites += plain["M0"]["sites"]
    elif force == "detcall" and "D0" in plain:
        # a draw, a choice-free sub-call on it, and a draw that depends on the sub-call's return value
        a, c, b = g.addr(), g.addr(), g.addr()
        g.body.append(["draw", a, "normal", [g.scalar(0), ["pos", g.scalar(0)]]])
        g.vars.append((["v", a], "f"))
        g.body.append(["call", c, "D0", [["aff", 1.0, ["v", a], 0.0]], {}])
        g.vars.append((["v", c], "f"))
        g.body.append(["draw", b, "normal", [["v", c], ["pos", g.scalar(0)]]])
        g.vars.append((["v", b], "f"))
        g.n_sites += 2
    elif force and force in avail:
        g.stmt([force])
    for _ in range(n_main):
        g.stmt(["draw", "draw"] + avail)
    main = {"np": len([v for v in g.vars if v[0][0] == "p"]), "kw": [v[0][1] for v in g.vars if v[0][0] == "k"], "body": g.body, "ret": g.scalar()}
    fns["main"] = main
    order.append("main")
    prog = {"fns": fns, "order": order, "main": "main"}
    prog = prune(prog)
    args = [draw(fconst) for _ in range(main["np"])]
    kw = {k: draw(fconst) for k in main["kw"]}
    return {"prog": prog, "args": args, "kwargs": kw, "n_sites": g.n_sites}


def prune(prog):
    """Drop functions unreachable from main."""
    reach, todo = set(), [prog["main"]]
    while todo:
        f = todo.pop()
        if f in reach:
            continue
        reach.add(f)
        for s in prog["fns"][f]["body"]:
            if s[0] in ("call", "vmap", "scan", "vscan", "scanv"):
                todo.append(s[2])
            elif s[0] in ("cond", "condv", "vcond"):
                todo += [s[3], s[4]]
    return {"fns": {k: v for k, v in prog["fns"].items() if k in reach}, "order": [k for k in prog["order"] if k in reach], "main": prog["main"]}


def features(prog):
    """Set of structural features, e.g. {'scan','vmap','cond','call','vdist','kwargs','event','dep'}."""
    out = set()
    for name, fn in prog["fns"].items():
        if fn["kw"]:
            out.add("kwargs")
        if not fn["body"]:
            out.add("detcall")
        for s in fn["body"]:
            if s[0] != "draw":
                out.add(s[0])
            if s[0] in NEST_KINDS:
                out.add("nest")
            elif s[2] in ("mvnormal", "dirichlet"):
                out.add("event")
            if s[0] in ("draw", "vdist", "vvdist") and _mentions_var(s[-1]):
                out.add("dep")
            if name != prog["main"] and s[0] in ("vmap", "scan", "cond", "vdist") + NEST_KINDS:
                out.add("nested_combinator")
    return out


def _mentions_var(e):
    if isinstance(e, list):
        if e and e[0] in ("v", "sc", "so"):
            return True
        return any(_mentions_var(x) for x in e)
    return False


def n_leaf_sites(prog):
    return sum(1 for fn in prog["fns"].values() for s in fn["body"] if s[0] in ("draw", "vdist", "vvdist"))


# ---------------------------------------------------------------------------
# genjax builder
# ---------------------------------------------------------------------------


def build(prog, all_fns=False):
    """-> genjax generative function for prog['main'] (closures over the IR; deterministic glue via refmodel.ev).
    all_fns=True returns the dict of all built functions (for top-level combinator traces)."""
    import jax.numpy as jnp
    import genjax
    from genjax import Cond, Scan, const, gen

    D = {
        "normal": genjax.normal, "uniform": genjax.uniform, "exponential": genjax.exponential, "beta": genjax.beta,
        "gamma": genjax.gamma, "flip": genjax.flip, "bernoulli": genjax.bernoulli, "categorical": genjax.categorical,
        "mvnormal": genjax.multivariate_normal, "dirichlet": genjax.dirichlet,
    }
    built = {}

    def mk(name):
        fn = prog["fns"][name]

        def body(*args, **kwargs):
            # keyword parameters have defaults (as in `def sub(mu, scale=1.0)`): the IR always passes them, so a default that
            # shows up in a density means that a keyword argument was lost on the way
            env = {"p": list(args), "k": {**{k: jnp.asarray(0.25, dtype=jnp.float32) for k in fn["kw"]}, **kwargs}, "v": {}}
            for s in fn["body"]:
                kind, addr = s[0], s[1]
                if kind == "draw":
                    ps = [refmodel.ev(e, env, jnp) for e in s[3]]
                    env["v"][addr] = D[s[2]](*ps) @ addr
                elif kind == "vdist":
                    _, _, dist, axes, n, pex = s
                    ps = [refmodel.ev(e, env, jnp) for e in pex]
                    env["v"][addr] = D[dist].vmap(in_axes=tuple(axes))(*ps) @ addr
                elif kind == "call":
                    a = [refmodel.ev(e, env, jnp) for e in s[3]]
                    kw = {k: refmodel.ev(e, env, jnp) for k, e in s[4].items()}
                    env["v"][addr] = built[s[2]](*a, **kw) @ addr
                elif kind == "vmap":
                    _, _, f, axes, n, aex = s
                    a = [refmodel.ev(e, env, jnp) for e in aex]
                    if all(ax is None for ax in axes):
                        vf = built[f].vmap(in_axes=tuple(axes), axis_size=n) if len(axes) > 1 else built[f].repeat(n)
                    else:
                        vf = built[f].vmap(in_axes=tuple(axes))
                    env["v"][addr] = vf(*a) @ addr
                elif kind == "scan":
                    _, _, f, L, init, xs = s
                    env["v"][addr] = Scan(built[f], length=const(L))(refmodel.ev(init, env, jnp), refmodel.ev(xs, env, jnp)) @ addr
                elif kind == "vvdist":
                    _, _, dist, lay, n_out, n_in, pex = s
                    ps = [refmodel.ev(e, env, jnp) for e in pex]
                    inner = D[dist].vmap(in_axes=tuple(0 if l in "im" else None for l in lay))
                    env["v"][addr] = inner.vmap(in_axes=tuple(0 if l in "om" else None for l in lay))(*ps) @ addr
                elif kind == "vscan":
                    _, _, f, n, L, init, xs = s
                    vs = Scan(built[f], length=const(L)).vmap(in_axes=(0, None))
                    env["v"][addr] = vs(refmodel.ev(init, env, jnp), refmodel.ev(xs, env, jnp)) @ addr
                elif kind == "scanv":
                    _, _, f, n, L, init, xs = s
                    sv = Scan(built[f].vmap(in_axes=(0, 0)), length=const(L))
                    env["v"][addr] = sv(refmodel.ev(init, env, jnp), refmodel.ev(xs, env, jnp)) @ addr
                elif kind in ("condv", "vcond"):
                    _, _, pred, ft, ff, n, axes, aex = s
                    a = [refmodel.ev(e, env, jnp) for e in aex]
                    p = jnp.asarray(refmodel.ev(pred, env, jnp), dtype=bool)
                    if kind == "condv":
                        c = Cond(built[ft].vmap(in_axes=tuple(axes)), built[ff].vmap(in_axes=tuple(axes)))
                    else:
                        c = Cond(built[ft], built[ff]).vmap(in_axes=(0,) + tuple(axes))
                    env["v"][addr] = c(p, *a) @ addr
                elif kind == "cond":
                    pred, ft, ff, aex = s[2:6]
                    a = [refmodel.ev(e, env, jnp) for e in aex]
                    ckw = {k: refmodel.ev(e, env, jnp) for k, e in s[6].items()} if len(s) > 6 else {}
                    p = jnp.asarray(refmodel.ev(pred, env, jnp), dtype=bool)
                    env["v"][addr] = Cond(built[ft], built[ff])(p, *a, **ckw) @ addr
            return refmodel.ev(fn["ret"], env, jnp)

        body.__name__ = name
        return gen(body)

    for name in prog["order"]:
        built[name] = mk(name)
    if all_fns:
        return built
    return built[prog["main"]]


def jargs(case):
    import jax.numpy as jnp

    return [jnp.asarray(a, dtype=jnp.float32) for a in case["args"]], {k: jnp.asarray(v, dtype=jnp.float32) for k, v in case["kwargs"].items()}


def to_jnp(choices):
    import jax.numpy as jnp

    if isinstance(choices, dict):
        return {k: to_jnp(v) for k, v in choices.items()}
    return jnp.asarray(choices)
