"""C15 - on deterministic code ADEV is ordinary forward-mode AD, for any argument shape (differential vs jax.jvp/grad)."""
import numpy as np

from harness import env
from harness.engine import ImplError, drive, impl
from harness.plans import plan

ID = "C15"

UNARY = ["sin", "cos", "tanh", "exp", "log1p_abs", "square", "neg", "abs", "sigmoid", "sqrt1p", "floor", "int_roundtrip", "clip", "relu_where", "sign_mul",
         "relu", "softplus", "complex_roundtrip", "fft_power", "guarded_sqrt", "top2", "switch3", "leaky_selu", "ste_round", "declared_rule", "relu_at_kink", "fori_loop", "sort_key_val", "scan_carry"]
BINARY = ["add", "sub", "mul", "div", "maximum", "where_gt"]


def apply_unary(op, x):
    import jax
    import jax.numpy as jnp

    if op == "sin":
        return jnp.sin(x)
    if op == "cos":
        return jnp.cos(x)
    if op == "tanh":
        return jnp.tanh(x)
    if op == "exp":
        return jnp.exp(jnp.clip(x, -5.0, 3.0))
    if op == "log1p_abs":
        return jnp.log1p(jnp.abs(x))
    if op == "square":
        return x * x
    if op == "neg":
        return -x
    if op == "abs":
        return jnp.abs(x)
    if op == "sigmoid":
        return jax.nn.sigmoid(x)
    if op == "sqrt1p":
        return jnp.sqrt(1.0 + x * x)
    if op == "floor":
        return x - 0.5 * jnp.floor(x)  # non-differentiable intermediate with zero tangent
    if op == "int_roundtrip":
        return x + x.astype(jnp.int32).astype(jnp.float32)  # integer intermediate, dtype conversions
    if op == "clip":
        return jnp.clip(x, -0.7, 0.9)
    if op == "relu_where":
        return jnp.where(x > 0.1, x, 0.25 * x)  # boolean intermediate
    if op == "sign_mul":
        return jnp.sign(x) * x
    if op == "relu":  # custom_jvp function
        return jax.nn.relu(x) * x
    if op == "softplus":
        return jax.nn.softplus(x)
    if op == "leaky_selu":
        return jax.nn.selu(x) + jax.nn.leaky_relu(x)
    if op == "complex_roundtrip":  # complex intermediate
        return jnp.real(jnp.exp(1j * x) * x)
    if op == "fft_power":
        v = jnp.atleast_1d(x)
        return jnp.sum(jnp.abs(jnp.fft.fft(v.reshape(-1))) ** 2) + 0.0 * x
    if op == "fori_loop":  # multi-result loop primitive: integer counter next to the differentiable state
        return jax.lax.fori_loop(0, 3, lambda i, c: c * 0.5 + jnp.sin(x) * (i + 1), x)
    if op == "sort_key_val":  # differentiable values carried along integer keys
        v = jnp.atleast_1d(x).reshape(-1)
        k = jnp.argsort(-v).astype(jnp.int32)
        ks, vs = jax.lax.sort_key_val(k, v * v)
        return jnp.sum(vs * jnp.arange(1.0, vs.shape[0] + 1.0)) + 0.0 * jnp.sum(ks) + 0.0 * x
    if op == "scan_carry":  # lax.scan with an integer counter in the carry and stacked outputs
        v = jnp.atleast_1d(x).reshape(-1)
        (c, n), ys = jax.lax.scan(lambda cn, e: ((cn[0] * 0.7 + e, cn[1] + 1), cn[0] * e), (jnp.sum(v), 0), v)
        return c + jnp.sum(ys) + 0.0 * n + 0.0 * x
    if op == "ste_round":  # custom_jvp whose declared rule (straight-through) is not the derivative of its body
        @jax.custom_jvp
        def ste(v):
            return jnp.round(v)

        ste.defjvp(lambda p, t: (jnp.round(p[0]), t[0]))
        return ste(x) * x
    if op == "declared_rule":  # custom_jvp with a declared tangent 3 * cos(v) * t for the body sin(v)
        @jax.custom_jvp
        def f(v):
            return jnp.sin(v)

        f.defjvp(lambda p, t: (jnp.sin(p[0]), 3.0 * jnp.cos(p[0]) * t[0]))
        return f(x) + 0.5 * x
    if op == "relu_at_kink":  # jax.nn.relu evaluated exactly at 0 (declared derivative 0 there)
        return jax.nn.relu(x - jax.lax.stop_gradient(x)) + jax.nn.relu(x * 0.0) + x
    if op == "guarded_sqrt":  # lax.cond guarding a branch whose derivative is singular where the other branch is taken
        v = jnp.sum(x)
        return jax.lax.cond(v > 0.0, lambda z: jnp.sqrt(z) * z, lambda z: -2.0 * z, v) + 0.0 * x
    if op == "top2":  # multi-result primitive
        v = jnp.atleast_1d(x).reshape(-1)
        v = jnp.concatenate([v, v[:1] + 1.0])
        vals, idx = jax.lax.top_k(v, 2)
        return jnp.sum(vals**2) + 0.0 * jnp.sum(idx) + 0.0 * x
    if op == "switch3":  # N-way switch on a data-dependent index
        i = jnp.clip(jnp.floor(jnp.abs(jnp.sum(x))).astype(jnp.int32), 0, 2)
        return jax.lax.switch(i, [lambda v: jnp.sin(v), lambda v: v * 2.0, lambda v: v * v], x)
    raise ValueError(op)


def apply_binary(op, x, y):
    import jax.numpy as jnp

    if op == "add":
        return x + y
    if op == "sub":
        return x - y
    if op == "mul":
        return x * y
    if op == "div":
        return x / (1.0 + y * y)
    if op == "maximum":
        return jnp.maximum(x, y)
    if op == "where_gt":
        return jnp.where(x > y, x * 2.0, y - 1.0)
    raise ValueError(op)


def run(prog, args):
    """prog: list of instructions over a value stack `vals` (initialised with the flattened arguments)."""
    import jax
    import jax.numpy as jnp

    vals = list(jax.tree_util.tree_leaves(args))
    for ins in prog:
        op = ins[0]
        if op == "un":
            vals.append(apply_unary(ins[1], vals[ins[2] % len(vals)]))
        elif op == "bin":
            a, b = vals[ins[2] % len(vals)], vals[ins[3] % len(vals)]
            try:
                np.broadcast_shapes(a.shape, b.shape)
            except ValueError:
                b = jnp.sum(b)
            vals.append(apply_binary(ins[1], a, b))
        elif op == "reduce":
            x = vals[ins[2] % len(vals)]
            if x.ndim == 0:
                vals.append(x * 1.5)
            else:
                ax = ins[3] % x.ndim
                f = {"sum": jnp.sum, "max": jnp.max, "mean": jnp.mean, "prod": lambda v, axis: jnp.prod(jnp.tanh(v), axis=axis),
                     "logsumexp": lambda v, axis: jax.scipy.special.logsumexp(v, axis=axis)}[ins[1]]
                vals.append(f(x, axis=ax))
        elif op == "index":
            x = vals[ins[2] % len(vals)]
            if x.ndim == 0:
                vals.append(x + 1.0)
            elif ins[1] == "int":
                vals.append(x[ins[3] % x.shape[0]])
            elif ins[1] == "slice":
                vals.append(x[(ins[3] % x.shape[0]):])
            elif ins[1] == "stride":
                vals.append(x[::2])
            elif ins[1] == "dynamic":
                vals.append(jax.lax.dynamic_slice_in_dim(x, jnp.asarray(ins[3] % x.shape[0], jnp.int32), 1, axis=0))
            elif ins[1] == "gather_computed":
                i = jnp.clip(jnp.floor(jnp.abs(jnp.sum(x))).astype(jnp.int32), 0, x.shape[0] - 1)  # integer index computed from values
                vals.append(x[i])
            elif ins[1] == "argmax":
                vals.append(x[jnp.argmax(x, axis=0)] if x.ndim == 1 else jnp.take_along_axis(x, jnp.argmax(x, axis=0)[None], axis=0)[0])
        elif op == "shape":
            x = vals[ins[2] % len(vals)]
            if ins[1] == "transpose":
                vals.append(x.T if x.ndim == 2 else jnp.transpose(x))
            elif ins[1] == "reshape":
                vals.append(x.reshape(-1))
            elif ins[1] == "stack":
                vals.append(jnp.stack([x, 2.0 * x]))
            elif ins[1] == "concat":
                vals.append(jnp.concatenate([jnp.atleast_1d(x).reshape(-1), jnp.atleast_1d(x).reshape(-1)[:1]]))
            elif ins[1] == "cumsum":
                vals.append(jnp.cumsum(jnp.atleast_1d(x), axis=0))
            elif ins[1] == "sort":
                vals.append(jnp.sort(jnp.atleast_1d(x), axis=0))
            elif ins[1] == "expand":
                vals.append(x[None] * jnp.ones((2,) + x.shape))
        elif op == "linalg":
            a, b = vals[ins[2] % len(vals)], vals[ins[3] % len(vals)]
            if ins[1] == "outer":
                vals.append(jnp.outer(a.reshape(-1)[:3], b.reshape(-1)[:3]))
            elif ins[1] == "dot":
                av, bv = a.reshape(-1), b.reshape(-1)
                n = min(av.shape[0], bv.shape[0])
                vals.append(jnp.dot(av[:n], bv[:n]))
            elif ins[1] == "matmul":
                if a.ndim == 2 and b.ndim >= 1 and a.shape[1] == b.shape[0]:
                    vals.append(a @ b)
                elif a.ndim == 2:
                    vals.append(a @ a.T)
                else:
                    vals.append(jnp.outer(a.reshape(-1), a.reshape(-1)) @ a.reshape(-1))
            elif ins[1] == "einsum":
                if a.ndim == 2:
                    vals.append(jnp.einsum("ij,ij->i", a, a))
                else:
                    vals.append(jnp.einsum("i,i->", a.reshape(-1), a.reshape(-1)))
        elif op == "cond":
            x = vals[ins[2] % len(vals)]
            pred = (jnp.sum(x) > ins[3]) if ins[1] == "data" else jnp.asarray(bool(ins[3] > 0))
            vals.append(jax.lax.cond(pred, lambda v: apply_unary(ins[4], v), lambda v: apply_unary(ins[5], v), x))
    return vals


def make_f(prog, out="last"):
    import jax.numpy as jnp

    def f(*args):
        vals = run(prog, args)
        if out == "last":
            return vals[-1]
        return sum(jnp.sum(v) for v in vals[-3:])

    return f


ARGSPECS = {
    "scalar": lambda r: (r(()),),
    "two_scalars": lambda r: (r(()), r(())),
    "vector": lambda r: (r((3,)),),
    "matrix": lambda r: (r((2, 3)),),
    "scalar_vector": lambda r: (r(()), r((4,))),
    "vector_matrix": lambda r: (r((3,)), r((3, 2))),
    "dict": lambda r: ({"u": r((3,)), "v": r((2, 3))},),
    "tuple_nested": lambda r: ((r(()), {"w": r((2,))}), r((2, 2))),
}


def classify(case):
    import jax
    import jax.numpy as jnp
    from genjax.adev import Dual, expectation

    prog, spec = case["prog"], case["argspec"]
    rng = np.random.default_rng(case["key"])
    mk = lambda sh: jnp.asarray(rng.uniform(-1.5, 1.5, size=sh).astype(np.float32))  # noqa: E731
    args = ARGSPECS[spec](mk)
    tans = jax.tree_util.tree_map(lambda a: jnp.asarray(rng.normal(size=a.shape).astype(np.float32)), args)
    ops = sorted({i[0] + ":" + str(i[1]) for i in prog})
    C = f"{spec}"
    fails, info = [], {"ops": ops}
    f = make_f(prog, "last")
    fs = make_f(prog, "scalar")
    try:
        want_y, want_t = jax.jvp(f, args, tans)
        want_g = jax.grad(fs, argnums=tuple(range(len(args))))(*args)
        want_v = f(*args)
    except Exception as e:  # the generated program is invalid for JAX itself: generator bug, not a finding
        raise RuntimeError(f"generator produced a program jax rejects: {type(e).__name__}: {e}")
    if not all(np.all(np.isfinite(np.asarray(x))) for x in jax.tree_util.tree_leaves((want_y, want_t, want_g))):
        return [], {**info, "skipped": "non-finite reference"}

    def near(a, b):
        a, b = np.asarray(a), np.asarray(b)
        return a.shape == b.shape and a.dtype == b.dtype and bool(np.all(np.abs(a.astype(np.float64) - b.astype(np.float64)) <= 1e-5 + 1e-5 * np.abs(b.astype(np.float64))))

    e = expectation(f)
    es = expectation(fs)
    try:
        d = impl(e.jvp_estimate, *Dual.dual_tree(args, tans))
        if not near(d.primal, want_y):
            fails.append((f"jvp_primal:{C}", f"jvp_estimate primal {np.asarray(d.primal).ravel()[:4]} (shape {np.shape(d.primal)}) != jax.jvp primal {np.asarray(want_y).ravel()[:4]} (shape {np.shape(want_y)}); ops {ops}"))
        if not near(d.tangent, want_t):
            fails.append((f"jvp_tangent:{C}", f"jvp_estimate tangent {np.asarray(d.tangent).ravel()[:4]} != jax.jvp tangent {np.asarray(want_t).ravel()[:4]}; ops {ops}"))
    except ImplError as ex:
        fails.append((f"jvp_raises:{ex.sig()}:{C}", f"{ex}; ops {ops}"))
    try:
        g = impl(es.grad_estimate, *args)
        g = (g,) if len(args) == 1 else g
        for gi, wi in zip(jax.tree_util.tree_leaves(g), jax.tree_util.tree_leaves(want_g)):
            if not near(gi, wi):
                fails.append((f"grad:{C}", f"grad_estimate {np.asarray(gi).ravel()[:4]} != jax.grad {np.asarray(wi).ravel()[:4]}; ops {ops}"))
                break
        if len(jax.tree_util.tree_leaves(g)) != len(jax.tree_util.tree_leaves(want_g)):
            fails.append((f"grad_structure:{C}", "gradient pytree differs from jax.grad's"))
    except ImplError as ex:
        fails.append((f"grad_raises:{ex.sig()}:{C}", f"{ex}; ops {ops}"))
    try:
        v = impl(e.estimate, *args)
        if not near(v, want_v):
            fails.append((f"estimate:{C}", f"estimate {np.asarray(v).ravel()[:4]} != f(x) {np.asarray(want_v).ravel()[:4]}; ops {ops}"))
    except ImplError as ex:
        fails.append((f"estimate_raises:{ex.sig()}:{C}", f"{ex}; ops {ops}"))
    return fails, info


def cases():
    from hypothesis import strategies as st

    i = st.integers(0, 7)
    ins = st.one_of(
        st.tuples(st.just("un"), st.sampled_from(UNARY), i).map(list),
        st.tuples(st.just("bin"), st.sampled_from(BINARY), i, i).map(list),
        st.tuples(st.just("reduce"), st.sampled_from(["sum", "max", "mean", "prod", "logsumexp"]), i, i).map(list),
        st.tuples(st.just("index"), st.sampled_from(["int", "slice", "stride", "dynamic", "gather_computed", "argmax"]), i, i).map(list),
        st.tuples(st.just("shape"), st.sampled_from(["transpose", "reshape", "stack", "concat", "cumsum", "sort", "expand"]), i).map(list),
        st.tuples(st.just("linalg"), st.sampled_from(["outer", "dot", "matmul", "einsum"]), i, i).map(list),
        st.tuples(st.just("cond"), st.sampled_from(["data", "const"]), i, st.sampled_from([-1.0, 0.0, 1.0]), st.sampled_from(UNARY), st.sampled_from(UNARY)).map(list),
    )
    return st.fixed_dictionaries({"prog": st.lists(ins, min_size=1, max_size=7), "argspec": st.sampled_from(sorted(ARGSPECS)), "key": st.integers(0, 2**30)})


def one_case(ctx, case):
    env.reset()
    fails, info = classify(case)
    kinds = {i[0] for i in case["prog"]}
    nondiff = any(i[0] == "un" and i[1] in ("floor", "int_roundtrip", "relu_where", "sign_mul", "clip", "relu", "top2", "switch3", "guarded_sqrt", "ste_round", "relu_at_kink") for i in case["prog"]) or any(i[0] == "index" and i[1] in ("gather_computed", "argmax") for i in case["prog"])
    nt = (len(case["prog"]) >= 3 and bool(kinds & {"shape", "index", "linalg", "reduce"})) or nondiff or case["argspec"] in ("dict", "tuple_nested")
    ctx.case(case, nt, [f"C15.args_{case['argspec']}"] + [f"C15.op_{k}" for k in sorted(kinds)] + (["C15.nondifferentiable_intermediate"] if nondiff else []) +
             [f"C15.cond_{i[1]}" for i in case["prog"] if i[0] == "cond"] + [f"C15.special_{i[1]}" for i in case["prog"] if i[0] == "un" and i[1] in ("relu", "complex_roundtrip", "fft_power", "guarded_sqrt", "top2", "switch3", "ste_round", "declared_rule", "relu_at_kink", "fori_loop", "sort_key_val", "scan_carry")],
             sample={**case, "info": info})
    for b, w in fails:
        ctx.fail(b, w, case)


def run_shard(ctx):
    P = plan(ctx)
    drive(ctx, cases(), P["n_cases"], lambda c: one_case(ctx, c), "main")


def replay(case):
    return classify(case)[0]
