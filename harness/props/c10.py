"""C10 - SMC particles are properly weighted; the evidence estimate is unbiased."""
import itertools
import math

import numpy as np
from scipy import special as sp
from scipy import stats as ss

from harness import env, stats
from harness.engine import ImplError, drive, impl
from harness.plans import plan

ID = "C10"


# ------------------------------------------------------------------------------------------ model families
def logits(M):
    """logit tables of a case: a `None` entry is a structural zero (logit -inf), e.g. an emission that cannot happen"""
    return np.asarray([[logits(r) if isinstance(r, list) else (-np.inf if r is None else r) for r in row] if isinstance(row, list) else (-np.inf if row is None else row) for row in M], dtype=np.float32) if isinstance(M, list) else np.float32(M)


def softmax_rows(M):
    M = np.asarray(M, dtype=np.float64)
    return np.exp(M - sp.logsumexp(M, axis=-1, keepdims=True))


def build_discrete(case):
    """step model: z ~ cat(T[prev]); y ~ cat(E[z]); returns z (next step's argument).  Optional proposal q(z | y, prev)."""
    import jax.numpy as jnp
    from genjax import categorical, gen

    T, E, Q = (jnp.asarray(logits(case[k])) for k in ("T", "E", "Q"))

    @gen
    def model(prev):
        z = categorical(T[prev]) @ "z"
        categorical(E[z]) @ "y"
        return z

    @gen
    def proposal(obs, old_choices, prev):
        categorical(Q[prev, obs["y"]]) @ "z"

    @gen
    def init_proposal(obs, prev):
        categorical(Q[prev, obs["y"]]) @ "z"

    if case.get("nested"):
        # the same model with latent and observation under one shared top-level address "s" (nested @gen call): the
        # proposal's choices {"s": {"z"}} and the constraints {"s": {"y"}} must be merged recursively
        @gen
        def nmodel(prev):
            return model(prev) @ "s"

        @gen
        def qz(y, prev):
            categorical(Q[prev, y]) @ "z"

        @gen
        def nproposal(obs, old_choices, prev):
            qz(obs["s"]["y"], prev) @ "s"

        @gen
        def ninit_proposal(obs, prev):
            qz(obs["s"]["y"], prev) @ "s"

        return nmodel, nproposal, ninit_proposal
    return model, proposal, init_proposal


def discrete_ref(case):
    T = softmax_rows(logits(case["T"]))
    E = softmax_rows(logits(case["E"]))
    Q = softmax_rows(logits(case["Q"]))
    return T, E, Q


def discrete_Z(case, upto):
    """exact p(y_1..upto) and the unnormalised posterior over the last state"""
    T, E, _ = discrete_ref(case)
    ys = case["obs"][:upto]
    K = T.shape[0]
    alpha = T[0] * E[:, ys[0]]
    for y in ys[1:]:
        alpha = (alpha @ T) * E[:, y]
    return float(alpha.sum()), alpha


def build_gauss(case):
    import jax.numpy as jnp
    from genjax import gen, normal

    a, q, r = case["a"], case["q"], case["r"]

    @gen
    def model(prev):
        x = normal(a * prev, q) @ "z"
        normal(x, r) @ "y"
        return x

    @gen
    def proposal(obs, old_choices, prev):
        normal(0.5 * (a * prev + obs["y"]), case["qs"]) @ "z"

    @gen
    def init_proposal(obs, prev):
        normal(0.5 * (a * prev + obs["y"]), case["qs"]) @ "z"

    return model, proposal, init_proposal


def gauss_Z(case, upto):
    a, q, r = case["a"], case["q"], case["r"]
    ys = [float(np.float32(y)) for y in case["obs"][:upto]]
    m, P, ll = 0.0, 0.0, 0.0  # prev0 = 0 exactly
    for y in ys:
        m, P = a * m, a * a * P + q * q
        S = P + r * r
        ll += ss.norm.logpdf(y, m, math.sqrt(S))
        K = P / S
        m, P = m + K * (y - m), (1 - K) * P
    return math.exp(ll)


# ------------------------------------------------------------------------------------------ reference increments
def ref_increment(case, z, prev, y, custom):
    """log weight increment of one particle for one init/extend move"""
    if case["family"] == "D":
        T, E, Q = discrete_ref(case)
        inc = math.log(E[z, y]) if E[z, y] > 0 else -math.inf
        if custom:
            inc += math.log(T[prev, z]) - math.log(Q[prev, y, z])
        return inc
    a, q, r = case["a"], case["q"], case["r"]
    inc = ss.norm.logpdf(y, z, r)
    if custom:
        inc += ss.norm.logpdf(z, a * prev, q) - ss.norm.logpdf(z, 0.5 * (a * prev + y), case["qs"])
    return float(inc)


def obs_at(case, t):
    import jax.numpy as jnp

    if case["family"] == "D":
        o = {"y": jnp.asarray(np.int32(case["obs"][t]))}
        return {"s": o} if case.get("nested") else o
    return {"y": jnp.asarray(np.float32(case["obs"][t]))}


def latent(case, choices, name):
    return choices["s"][name] if case.get("nested") else choices[name]


def zsel(case):
    from genjax import sel

    return sel(("s", "z")) if case.get("nested") else sel("z")


def prev0(case):
    import jax.numpy as jnp

    return jnp.asarray(np.int32(0)) if case["family"] == "D" else jnp.asarray(np.float32(0.0))


# ------------------------------------------------------------------------------------------ hand-composed pipelines
def run_pipeline(case, key, check=False):
    """Runs init + moves under seed (one sub-key per move).  With check=True compares every particle's weight with the
    reference after every move and returns the list of failures; otherwise returns (lml, last z per particle, log_weights)."""
    import jax
    import jax.numpy as jnp
    from genjax import const, seed, sel
    from genjax.inference import mh
    from genjax.inference import smc as S

    model, proposal, init_proposal = (build_discrete if case["family"] == "D" else build_gauss)(case)
    N = case["N"]
    custom = case["custom"]
    C = f"{case['family']}:{'custom' if custom else 'default'}"
    fails = []
    p0 = prev0(case)
    parts = seed(lambda: S.init(model, (p0,), const(N), obs_at(case, 0), init_proposal if custom else None))(jax.random.fold_in(key, 0))
    t = 1

    def lane(x, i):
        return np.asarray(x)[i]

    def check_move(name, old_lw, new_parts, y):
        zs = np.asarray(latent(case, new_parts.traces.get_choices(), "z"))
        prevs = np.asarray(jax.tree_util.tree_leaves(new_parts.traces.get_args()[0])[0]) if not isinstance(new_parts.traces.get_args()[0], tuple) else np.asarray(new_parts.traces.get_args()[0][0])
        lw = np.asarray(new_parts.log_weights, dtype=np.float64)
        for i in range(N):
            pv = prevs[i] if np.ndim(prevs) else prevs
            inc = ref_increment(case, zs[i].item(), pv.item(), np.float32(y).item() if case["family"] == "G" else int(y), custom)
            want = (old_lw[i] if old_lw is not None else 0.0) + inc
            if (lw[i] != want) if not np.isfinite(want) else (not abs(lw[i] - want) <= 2e-4 + 2e-5 * abs(want)):
                fails.append((f"particle_weight_after_{name}:{C}", f"particle {i}: log weight {lw[i]} != previous {old_lw[i] if old_lw is not None else 0.0} + log p(choices, obs)/q(choices) increment {inc} (z={zs[i]}, prev={pv}, y={y})"))
                return
        ys_recorded = np.asarray(latent(case, new_parts.traces.get_choices(), "y"))
        if not np.all(ys_recorded == (np.float32(y) if case["family"] == "G" else y)):
            fails.append((f"observation_not_installed:{C}", f"after {name}: particles' y = {ys_recorded.tolist()} != observation {y}"))

    if check:
        check_move("init", None, parts, case["obs"][0])
    for mi, mv in enumerate(case["moves"]):
        k = jax.random.fold_in(key, 1 + mi)
        old_lw = np.asarray(parts.log_weights, dtype=np.float64) if check else None
        old_diag = np.asarray(parts.diagnostic_weights) if check else None
        old_lml = float(parts.log_marginal_likelihood()) if check else None
        if mv == "extend":
            if t >= len(case["obs"]):
                continue
            rv = parts.traces.get_retval()
            parts = seed(lambda p, r, o: S.extend(p, model, r, o, proposal if custom else None))(k, parts, rv, obs_at(case, t))
            if check:
                check_move("extend", old_lw, parts, case["obs"][t])
            t += 1
        elif mv in ("resample_cat", "resample_sys"):
            parts = seed(lambda p: S.resample(p, "categorical" if mv == "resample_cat" else "systematic"))(k, parts)
            if check:
                lml = float(parts.log_marginal_likelihood())
                if (lml != old_lml) if not np.isfinite(old_lml) else (not abs(lml - old_lml) <= 1e-4 + 1e-5 * abs(old_lml)):
                    fails.append((f"estimate_changed_by_resample:{C}", f"{old_lml} -> {lml}"))
        elif mv == "rejuvenate":
            parts = seed(lambda p: S.rejuvenate(p, lambda tr: mh(tr, zsel(case))))(k, parts)
            if check:
                if not np.array_equal(np.asarray(parts.log_weights, dtype=np.float64), old_lw, equal_nan=True):
                    fails.append((f"rejuvenate_changed_weights:{C}", f"{old_lw.tolist()} -> {np.asarray(parts.log_weights).tolist()}"))
                if not np.array_equal(np.asarray(parts.diagnostic_weights), old_diag, equal_nan=True):  # all particles dead: normalised weights are undefined (nan) before and after
                    fails.append((f"rejuvenate_changed_diagnostic_weights:{C}", ""))
                if not np.all(np.asarray(latent(case, parts.traces.get_choices(), "y")) == (np.float32(case["obs"][t - 1]) if case["family"] == "G" else case["obs"][t - 1])):
                    fails.append((f"rejuvenate_touched_observation:{C}", ""))
        elif mv == "change":
            parts = seed(lambda p, r: S.change(p, model, (r,), lambda ch: ch))(k, parts, p0) if False else parts
        if fails:
            break
    if check:
        return fails, t
    return parts.log_marginal_likelihood(), latent(case, parts.traces.get_choices(), "z"), parts.log_weights, parts, t


def n_extends(case):
    t = 1
    for mv in case["moves"]:
        if mv == "extend" and t < len(case["obs"]):
            t += 1
    return t


def classify_pipeline(case, ctx=None, n1=3000):
    import jax

    C = f"{case['family']}:{'custom' if case['custom'] else 'default'}"
    info = {"family": case["family"], "custom": case["custom"], "N": case["N"]}
    try:
        fails, t = impl(run_pipeline, case, env.key(case["key"], 0), True)
    except ImplError as e:
        return [(f"pipeline_raises:{e.sig()}:{C}", f"moves {case['moves']}: {e}")], info
    info["steps_observed"] = t
    if fails or not n1:
        return fails, info
    c = ctx if ctx is not None else type("C", (), {"stat_tests": 0, "stat_stage2": 0})()
    Z = discrete_Z(case, t)[0] if case["family"] == "D" else gauss_Z(case, t)

    KD = len(discrete_Z(case, t)[1]) if case["family"] == "D" else 0

    def one(k):
        import jax.numpy as jnp

        lml, zs, lw, parts, _ = run_pipeline(case, k, False)
        lwn = lw - jax.scipy.special.logsumexp(lw)
        if KD:  # the library's own weighted average of the indicator of every state (ParticleCollection.estimate)
            est = parts.estimate(lambda ch: (latent(case, ch, "z") == jnp.arange(KD)).astype(jnp.float32))
        else:   # first two moments of the latent
            est = parts.estimate(lambda ch: jnp.stack([latent(case, ch, "z"), latent(case, ch, "z") ** 2]))
        return lml, zs, lwn, est

    bs = jax.jit(jax.vmap(one))
    cache = {}

    def draw(n, stage):
        if stage not in cache:
            lml, zs, lwn, est = impl(bs, jax.random.split(env.key(case["key"], 10 + stage), n))
            cache[stage] = (np.asarray(lml, dtype=np.float64), np.asarray(zs), np.asarray(lwn, dtype=np.float64), np.asarray(est, dtype=np.float64))
        return cache[stage]

    try:
        if case["family"] == "D" and not case["custom"]:
            def pfun(n, stage):
                lml = draw(n, stage)[0]
                return stats.bernstein_mean_p(np.exp(lml), Z, 0.0, 1.0)
        else:
            def pfun(n, stage):
                lml = draw(n, stage)[0]
                return stats.block_mean_t_p(np.exp(lml) / Z, 1.0)

        res = stats.two_stage(c, pfun, n1)
        if res:
            fails.append((f"evidence_estimate_biased:{C}", f"E[exp(log_marginal_likelihood())] differs from the exact marginal likelihood {Z:.6g} after moves {case['moves']} with N={case['N']}: {res}"))
        elif case["family"] == "D":
            # estimate-weighted particle averages are unbiased for the unnormalised posterior
            alpha = discrete_Z(case, t)[1]
            K = len(alpha)

            def pfun2(n, stage):
                lml, zs, lwn, est_api = draw(n, stage)
                w = np.exp(lwn)
                ps = []
                for kk in range(K):
                    est = np.exp(lml) * est_api[:, kk]  # Zhat * particles.estimate(1[z = k])
                    ps.append(stats.block_mean_t_p(est, alpha[kk])[0] if case["custom"] else stats.bernstein_mean_p(est, alpha[kk], 0.0, 1.0)[0])
                return min(1.0, min(ps) * K), {"target": alpha.tolist()}

            res = stats.two_stage(c, pfun2, n1)
            if res:
                fails.append((f"weighted_average_biased:{C}", f"E[exp(log_marginal_likelihood()) * particles.estimate(1[z=k])] differs from p(z_t=k, y) after moves {case['moves']} with N={case['N']}: {res}"))
    except ImplError as e:
        fails.append((f"pipeline_batch_raises:{e.sig()}:{C}", str(e)))
    return fails, info


# ------------------------------------------------------------------------------------------ rejuvenation_smc
def classify_rsmc(case, ctx=None, n1=3000):
    import jax
    import jax.numpy as jnp
    from genjax import const, seed, sel
    from genjax.inference import mh
    from genjax.inference import smc as S

    model, proposal, _ = (build_discrete if case["family"] == "D" else build_gauss)(case)
    custom, N, kern = case["custom"], case["N"], case["kernel"]
    C = f"rejuvenation_smc:{case['family']}:{'custom' if custom else 'default'}{':kernel' if kern else ''}"
    fails, info = [], {"api": "rejuvenation_smc", "N": N}
    obs = {"y": jnp.asarray(np.asarray(case["obs"], dtype=np.int32 if case["family"] == "D" else np.float32))}
    if case.get("nested"):
        obs = {"s": obs}
    Tn = len(case["obs"])
    c = ctx if ctx is not None else type("C", (), {"stat_tests": 0, "stat_stage2": 0})()

    def run(all_particles):
        return S.rejuvenation_smc(model, proposal if custom else None, const(lambda tr: mh(tr, zsel(case))) if kern else None, obs, (prev0(case),), const(N),
                                  const(all_particles), const(case["n_moves"]))

    try:
        allp = impl(seed(lambda: run(True)), env.key(case["key"], 0))
        lw = np.asarray(allp.log_weights)
        if lw.shape != (Tn, N):
            fails.append((f"all_particles_shape:{C}", f"log_weights shape {lw.shape} != (T={Tn}, N={N})"))
        last = impl(seed(lambda: run(False)), env.key(case["key"], 0))
        if not np.allclose(np.asarray(last.log_weights), lw[-1], atol=1e-5):
            fails.append((f"final_vs_all_particles:{C}", "return_all_particles[-1] differs from the final collection for the same key"))
        if fails or not n1:
            return fails, info
        Zs = [discrete_Z(case, t)[0] if case["family"] == "D" else gauss_Z(case, t) for t in range(1, Tn + 1)]

        def lmls(k):
            p = seed(lambda: run(True))(k)
            cur = jax.scipy.special.logsumexp(p.log_weights, axis=1) - jnp.log(N)
            return p.log_marginal_estimate + cur

        bs = jax.jit(jax.vmap(lmls))
        cache = {}

        def draw(n, stage):
            if stage not in cache:
                cache[stage] = np.asarray(impl(bs, jax.random.split(env.key(case["key"], 10 + stage), n)), dtype=np.float64)
            return cache[stage]

        def pfun(n, stage):
            L = draw(n, stage)
            ps = []
            for t in range(Tn):
                if case["family"] == "D" and not custom:
                    ps.append(stats.bernstein_mean_p(np.exp(L[:, t]), Zs[t], 0.0, 1.0)[0])
                else:
                    ps.append(stats.block_mean_t_p(np.exp(L[:, t]) / Zs[t], 1.0)[0])
            return min(1.0, min(ps) * Tn), {"Z": Zs, "means": np.exp(L).mean(axis=0).tolist()}

        res = stats.two_stage(c, pfun, n1)
        if res:
            fails.append((f"evidence_estimate_biased:{C}", f"after some step of rejuvenation_smc (N={N}) E[exp(lml)] differs from the exact marginal likelihood: {res}"))
    except ImplError as e:
        fails.append((f"raises:{e.sig()}:{C}", str(e)))
    return fails, info


# ------------------------------------------------------------------------------------------ strategies
def cases():
    from hypothesis import strategies as st

    lg = st.floats(-1.5, 1.5, allow_nan=False).map(lambda x: round(x, 2))

    @st.composite
    def disc(draw):
        K, M = draw(st.integers(2, 3)), draw(st.integers(2, 3))
        Tn = draw(st.integers(1, 4))
        E = [[draw(lg) for _ in range(M)] for _ in range(K)]
        if draw(st.integers(0, 2)) == 0:
            # structural zeros in the emission table (None = logit -inf): particles whose state cannot emit the observation
            # get log weight -inf; every state keeps a possible symbol and every symbol a possible state
            for _ in range(draw(st.integers(1, 2))):
                z, y = draw(st.integers(0, K - 1)), draw(st.integers(0, M - 1))
                if sum(e is not None for e in E[z]) > 1 and sum(E[k][y] is not None for k in range(K)) > 1:
                    E[z][y] = None
        return {"family": "D", "nested": draw(st.booleans()), "T": [[draw(lg) for _ in range(K)] for _ in range(K)], "E": E,
                "Q": [[[draw(lg) for _ in range(K)] for _ in range(M)] for _ in range(K)], "obs": [draw(st.integers(0, M - 1)) for _ in range(Tn)]}

    @st.composite
    def gauss(draw):
        pos = st.floats(0.5, 1.5, allow_nan=False).map(lambda x: round(x, 2))
        Tn = draw(st.integers(1, 3))
        return {"family": "G", "a": draw(st.sampled_from([0.5, 0.9, -0.7])), "q": draw(pos), "r": draw(pos), "qs": draw(pos),
                "obs": [draw(st.floats(-1.5, 1.5, allow_nan=False).map(lambda x: round(x, 2))) for _ in range(Tn)]}

    move = st.sampled_from(["extend", "extend", "resample_cat", "resample_sys", "rejuvenate"])

    @st.composite
    def _c(draw):
        fam = draw(st.one_of(disc(), disc(), gauss()))
        api = draw(st.sampled_from(["pipeline", "pipeline", "rsmc"]))
        base = {**fam, "N": draw(st.sampled_from([1, 2, 3, 5, 8])), "custom": draw(st.booleans()), "key": draw(st.integers(0, 2**30)), "api": api}
        if api == "pipeline":
            # a quarter of the pipelines end on a systematic resampling step, so that the weighted averages are taken from a
            # freshly resampled (uniformly weighted, ancestor-sorted) collection
            tail = draw(st.sampled_from([[], [], [], [], [], ["resample_sys"], ["resample_sys"], ["resample_cat"]]))
            return {**base, "moves": draw(st.lists(move, min_size=1, max_size=6)) + tail}
        return {**base, "kernel": draw(st.booleans()), "n_moves": draw(st.integers(1, 2))}

    return _c()


def one_case(ctx, case):
    P = plan(ctx)
    env.reset()
    if case["api"] == "pipeline":
        fails, info = classify_pipeline(case, ctx, P["n1"])
        nt = any(m in ("extend", "resample_cat", "resample_sys") for m in case["moves"]) or case["custom"]
        cls = ["C10.pipeline"] + [f"C10.move_{m}" for m in set(case["moves"])]
    else:
        fails, info = classify_rsmc(case, ctx, P["n1"])
        nt = len(case["obs"]) >= 2 or case["custom"]
        cls = ["C10.rejuvenation_smc"] + (["C10.rsmc_with_kernel"] if case["kernel"] else [])
    if case.get("nested"):
        cls.append("C10.nested_addresses")
    if case["family"] == "D" and any(e is None for row in case["E"] for e in row):
        cls.append("C10.zero_probability_emissions")
    cls += [f"C10.family_{case['family']}", f"C10.proposal_{'custom' if case['custom'] else 'default'}", f"C10.N_{case['N'] if case['N'] <= 2 else 'many'}"]
    ctx.case(case, bool(nt), cls, sample={**case, "info": info})
    for b, w in fails:
        ctx.fail(b, w, case)


def run_shard(ctx):
    P = plan(ctx)
    drive(ctx, cases(), P["n_cases"], lambda c: one_case(ctx, c), "main")


def replay(case):
    return (classify_pipeline(case, None, 3000) if case["api"] == "pipeline" else classify_rsmc(case, None, 3000))[0]
