"""C14 - unseeded sampling can never be compiled into a fixed-randomness program (placement enumeration)."""
import itertools

import numpy as np

from harness import env
from harness.engine import ImplError
from harness.plans import plan

ID = "C14"
CORES = ["dist_sample", "gf_simulate", "gf_call", "sample_shape", "adev_site", "site_after_ops", "site_after_calls", "adev_site_after_calls"]
WRAPS = ["jit", "scan", "while", "fori", "cond", "switch", "grad", "value_and_grad", "vmap", "jit2", "checkpoint", "custom_jvp", "map", "modular_vmap"]
SEEDS = ["none", "outer", "inner"]


def core_fn(core):
    import jax.numpy as jnp
    from genjax import gen, normal
    from genjax.adev import normal_reparam

    @gen
    def g(x):
        return normal(x, 1.0) @ "a"

    if core == "dist_sample":
        return lambda x: normal.sample(x, 1.0)
    if core == "gf_simulate":
        return lambda x: g.simulate(x).get_retval()
    if core == "gf_call":
        return lambda x: g(x)
    if core == "sample_shape":
        return lambda x: jnp.sum(normal.sample(x, 1.0, sample_shape=(2,)))
    if core == "adev_site":
        return lambda x: normal_reparam(x, 1.0)
    if core == "site_after_ops":  # parameterised deterministic equations (pow, reductions, casts) precede the site
        return lambda x: normal.sample(jnp.sum(jnp.stack([x, x]) ** 2).astype(jnp.float32) + 1.0, 1.0) * 1.0
    if core == "site_after_calls":  # equations that carry sub-jaxprs (jitted library functions, a cond) precede the site
        import jax

        return lambda x: normal.sample(jnp.clip(x, -5.0, 5.0) + jnp.where(x > 0, x, 0.5 * x) + jax.lax.cond(x > 9.0, lambda v: v, lambda v: 0.0 * v, x), 1.0) * 1.0
    if core == "adev_site_after_calls":
        import jax

        return lambda x: normal_reparam(jnp.clip(x, -5.0, 5.0) + 0.0 * jax.nn.softplus(x), 1.0) * 1.0
    raise ValueError(core)


def wrap(kind, f):
    """x -> scalar function transformers, one per JAX construct."""
    import jax
    import jax.numpy as jnp
    from genjax import modular_vmap

    if kind in ("jit", "jit2"):
        return jax.jit(f)
    if kind == "scan":
        return lambda x: jax.lax.scan(lambda c, _: (c + 0.0 * f(x), f(x)), x, jnp.arange(2))[1][1]
    if kind == "while":
        return lambda x: jax.lax.while_loop(lambda s: s[0] < 1, lambda s: (s[0] + 1, f(x)), (0, x))[1]
    if kind == "fori":
        return lambda x: jax.lax.fori_loop(0, 1, lambda i, c: f(x) + 0.0 * c, x)
    if kind == "cond":
        return lambda x: jax.lax.cond(x > -100.0, lambda v: f(v), lambda v: f(v) + 1.0, x)
    if kind == "switch":
        return lambda x: jax.lax.switch(jnp.asarray(1), [lambda v: v, lambda v: f(v), lambda v: -v], x)
    if kind == "grad":
        return lambda x: jax.grad(lambda v: f(v) * v)(x)
    if kind == "value_and_grad":
        return lambda x: jax.value_and_grad(lambda v: f(v) * v)(x)[0]
    if kind == "vmap":
        return lambda x: jnp.sum(jax.vmap(f)(jnp.stack([x, x + 1.0])) * jnp.asarray([1.0, 0.5]))
    if kind == "modular_vmap":
        return lambda x: jnp.sum(modular_vmap(f)(jnp.stack([x, x + 1.0])) * jnp.asarray([1.0, 0.5]))
    if kind == "checkpoint":
        return jax.checkpoint(f)
    if kind == "custom_jvp":
        cf = jax.custom_jvp(lambda v: f(v))
        cf.defjvp(lambda p, t: (f(p[0]), t[0]))
        return cf
    if kind == "map":
        return lambda x: jax.lax.map(f, jnp.stack([x, x + 1.0]))[0]
    raise ValueError(kind)


def build(core, stack, seed_at):
    """stack is outermost-first.  seed_at: none | outer (seed around everything) | inner (seed directly around the core)."""
    from genjax import seed

    f = core_fn(core)
    if seed_at == "inner":
        g = f
        key_holder = {}

        def seeded_core(x):
            return seed(g)(key_holder["key"], x)

        h = seeded_core
        for w in reversed(stack):
            h = wrap(w, h)

        def run(key, x):
            key_holder["key"] = key
            return h(x)

        return run
    h = f
    for w in reversed(stack):
        h = wrap(w, h)
    if seed_at == "outer":
        return lambda key, x: seed(h)(key, x)
    return lambda key, x: h(x)


def classify(case):
    import jax
    import jax.numpy as jnp
    from genjax.pjax import LoweringSamplePrimitiveToMLIRException

    core, stack, seed_at = case["core"], case["stack"], case["seed"]
    compiles = any(w in ("jit", "jit2", "scan", "while", "fori", "cond", "switch", "map", "checkpoint") for w in stack)
    # root-cause class of a placement: a differentiation / rematerialisation wrapper *inside* the seeded region makes
    # JAX trace the site's JVP / remat rule instead of binding the sample primitive (one root cause, many stacks)
    ad_inside = any(w in ("grad", "value_and_grad", "checkpoint", "custom_jvp") for w in stack)
    C = f"{seed_at}:{'ad_or_remat_wrapper_inside_seed' if (ad_inside and seed_at == 'outer') else '+'.join(stack)}"
    info = {}
    x = jnp.asarray(0.3, dtype=jnp.float32)

    env.reset()
    try:
        fn_once = build(core, stack, seed_at)
        build_err = None
    except Exception as e:  # noqa: BLE001
        fn_once, build_err = None, e

    def attempt(key):
        try:
            if build_err is not None:
                raise build_err
            # seed directly around the core: the key reaches the core through a closure, so a fresh closure is built
            # per key (otherwise a jit cache would hold on to the first key - an artefact of the harness, not of genjax)
            fn = fn_once if seed_at != "inner" else build(core, stack, seed_at)
            v = fn(key, x)
            return "value", np.asarray(v, dtype=np.float64)
        except LoweringSamplePrimitiveToMLIRException as e:
            return "lowering_error", None
        except NotImplementedError as e:
            return ("vmap_error" if "modular_vmap" in str(e) or "vmap" in str(e).lower() else "not_implemented"), str(e)[:200]
        except Exception as e:  # noqa: BLE001
            return "other_error", f"{type(e).__name__}: {str(e)[:300]}"

    keys = [env.key(case["key"], i) for i in range(4)]
    fails = []
    if seed_at == "none":
        outs = [attempt(keys[0]) for _ in range(3)]
        kinds = {o[0] for o in outs}
        info["outcome"] = sorted(kinds)
        if kinds == {"value"}:
            vals = [o[1] for o in outs]
            if np.array_equal(vals[0], vals[1]) and np.array_equal(vals[1], vals[2]):
                fails.append((f"unseeded_fixed_randomness:{C}", f"core {core} under {stack} without seed returned the same value {vals[0].tolist()} on 3 calls: a key was baked in"))
            elif compiles and any(w in ("jit", "jit2") for w in stack):
                # a jit-compiled executable that still varies between calls would be odd but is not the violation claimed
                info["note"] = "varies across calls"
        elif "value" in kinds:
            fails.append((f"unseeded_inconsistent:{C}", f"core {core} under {stack}: outcomes differ between calls: {[o[0] for o in outs]}"))
        elif kinds - {"lowering_error", "vmap_error"}:
            # other errors: acceptable only if they are raised instead of a value (no fixed randomness) - record class
            info["error"] = outs[0][1]
    else:
        outs = [attempt(k) for k in keys]
        again = attempt(keys[0])
        kinds = {o[0] for o in outs}
        info["outcome"] = sorted(kinds)
        if kinds == {"value"}:
            vals = [o[1] for o in outs]
            if again[0] != "value" or not np.array_equal(again[1], vals[0]):
                fails.append((f"seeded_not_a_function_of_key:{C}", f"core {core} under {stack}, seed {seed_at}: same key gave {vals[0].tolist()} then {again[1].tolist() if again[0] == 'value' else again}: hidden randomness"))
            if all(np.array_equal(vals[0], v) for v in vals[1:]):
                fails.append((f"seeded_ignores_key:{C}", f"core {core} under {stack}, seed {seed_at}: 4 different keys all gave {vals[0].tolist()}: a site was left with baked-in randomness"))
            elif not fails:
                # result must compile under jit when seeded (outer) and be the same function of the key
                if seed_at == "outer":
                    env.reset()
                    try:
                        fn = build(core, stack, seed_at)
                        jv = np.asarray(jax.jit(fn)(keys[0], x), dtype=np.float64)
                        if not np.allclose(jv, vals[0], rtol=1e-5, atol=1e-6):
                            fails.append((f"seeded_jit_differs:{C}", f"jit(seed(f)) gives {jv.tolist()} but seed(f) gives {vals[0].tolist()} for the same key"))
                    except LoweringSamplePrimitiveToMLIRException:
                        fails.append((f"seeded_still_has_sites:{C}", f"seed(f) ran eagerly but jit(seed(f)) hit the lowering error: seed left a sampling site behind"))
                    except Exception as e:  # noqa: BLE001
                        info["jit_error"] = f"{type(e).__name__}: {str(e)[:200]}"
        elif "value" in kinds:
            fails.append((f"seeded_inconsistent:{C}", f"outcomes differ between keys: {[o[0] for o in outs]}"))
    return fails, info


def one_case(ctx, case):
    fails, info = classify(case)
    nt = len(case["stack"]) >= 2 or any(w in ("while", "fori", "checkpoint", "custom_jvp", "map", "grad", "value_and_grad", "switch") for w in case["stack"])
    cls = [f"C14.seed_{case['seed']}", f"C14.core_{case['core']}", f"C14.depth_{len(case['stack'])}"] + [f"C14.outcome_{o}" for o in info.get("outcome", [])]
    ctx.case(case, nt, cls, sample={**case, "info": info})
    for b, w in fails:
        ctx.fail(b, w, case)


def run_shard(ctx):
    P = plan(ctx)
    work = []
    for depth in P["depths"]:
        for stack in itertools.product(WRAPS, repeat=depth):
            for core in (CORES if depth <= 1 else P["cores_deep"]):
                for s in SEEDS:
                    work.append({"core": core, "stack": list(stack), "seed": s, "key": ctx.seed})
    if P.get("sample_depth3"):
        import random

        rnd = random.Random(ctx.seed * 7919 + 13)
        for _ in range(P["sample_depth3"]):
            work.append({"core": rnd.choice(CORES), "stack": [rnd.choice(WRAPS) for _ in range(3)], "seed": rnd.choice(SEEDS), "key": ctx.seed})
    for i, case in enumerate(work):
        if i % ctx.nshards == ctx.shard:
            one_case(ctx, case)


def replay(case):
    return classify(case)[0]
