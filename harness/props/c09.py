"""C09 - mh, mala and hmc are reversible with respect to the posterior.

Scripted part (DESIGN.md 4.4): the kernels' own randomness source (module-level `uniform` / `normal` in
genjax.inference.mcmc) is replaced by a tape for one case, so that the proposal actually drawn and the acceptance
threshold actually applied can be compared *exactly* with the Metropolis-Hastings rule computed by the float64 reference.
Distributional part: one seeded step from exact posterior samples must return posterior samples; the mixture-indicator
move's full transition matrix is compared with the reference MH matrix.
"""
import math

import numpy as np
from scipy import stats as ss

from harness import doubles, env, gfi, modelir, refmodel, selref, stats
from harness.engine import ImplError, drive, impl
from harness.plans import plan
from harness.props.c01 import feat
from harness.props.c02 import constraint_map
from harness.props.c03 import preds_of

ID = "C09"
GRAD_DISTS = {"normal", "mvnormal"}


def or_of(paths):
    e = ["tup", list(paths[0])]
    for p in paths[1:]:
        e = ["or", e, ["tup", list(p)]]
    return e


def leaves_equal(a, b):
    import jax

    la, lb = jax.tree_util.tree_leaves(a), jax.tree_util.tree_leaves(b)

    def eq(x, y):
        # Python scalars recorded in a trace (e.g. literal distribution arguments) come back as arrays after a
        # transformation: compare them in the array's dtype
        if isinstance(y, (int, float, bool)) and not isinstance(x, (int, float, bool)):
            y = np.asarray(y).astype(np.asarray(x).dtype)
        elif isinstance(x, (int, float, bool)) and not isinstance(y, (int, float, bool)):
            x = np.asarray(x).astype(np.asarray(y).dtype)
        return gfi.bit_equal(np.asarray(x), np.asarray(y))

    return len(la) == len(lb) and all(eq(x, y) for x, y in zip(la, lb))


def run_kernel(kernel, tr, key, u=None, noise_rng=None):
    """One kernel step under seed with optionally scripted accept-uniform / proposal noise.  -> (trace, accept, tapes)"""
    import jax.numpy as jnp
    import genjax.inference.mcmc as M
    from genjax import seed
    from genjax.state import state

    tapes = {}
    if u is not None:
        tapes["uniform"] = doubles.Tape(M.uniform, fn=lambda i, a, k: jnp.asarray(np.float32(float(a[0]) + u * (float(a[1]) - float(a[0])) if len(a) >= 2 else u)), name="uniform")
    if noise_rng is not None:
        draws = []

        def nfn(i, a, k):
            shp = tuple(k.get("sample_shape", ()))
            v = noise_rng.standard_normal(shp).astype(np.float32)
            draws.append(v)
            return jnp.asarray(v)

        tapes["normal"] = doubles.Tape(M.normal, fn=nfn, name="normal")
        tapes["normal"].draws = draws
    # genjax caches staged jaxprs per function object; scripted values enter the kernel as closed-over constants, so a
    # fresh function object is staged for every scripted run (otherwise the first run's tape values would be replayed)
    fresh = lambda t: kernel(t)  # noqa: E731
    with doubles.scripted(M, **tapes):
        out, st = seed(lambda t: state(fresh)(t))(key, tr)
    return out, bool(np.asarray(st["accept"])), tapes


def set_paths(ch, vals):
    flat = dict(refmodel.flat_leaves(ch))
    flat.update(vals)
    return refmodel.nest(flat)


def fd_grad(logp_of, x, h=1e-4):
    """central finite differences of a float64 scalar function over a dict path -> array"""
    g = {}
    for p, v in x.items():
        v = np.asarray(v, dtype=np.float64)
        gv = np.zeros_like(v)
        for idx in np.ndindex(v.shape) if v.shape else [()]:
            xp, xm = {q: np.array(w, dtype=np.float64) for q, w in x.items()}, {q: np.array(w, dtype=np.float64) for q, w in x.items()}
            xp[p][idx] += h
            xm[p][idx] -= h
            gv[idx] = (logp_of(xp) - logp_of(xm)) / (2 * h)
        g[p] = gv
    return g


# ------------------------------------------------------------------------------------------ scripted, IR targets
def classify_ir(case):
    from genjax import seed
    from genjax.inference import hmc, mala, mh

    prog = case["prog"]
    F = feat(prog)
    kern = case["kernel"]
    fails, info = [], {"features": F, "kernel": kern}
    ref = refmodel.Ref(prog)
    rargs, rkw = gfi.ref_args(case)
    jargs, jkw = modelir.jargs(case)
    gf = impl(modelir.build, prog)
    rng = np.random.default_rng(case["key"])
    ch_ref, _ = ref.sample(rargs, rkw, rng)
    linfo = ref.leaf_info(rargs, rkw)
    obs = [tuple(p) for p in case["observed"] if tuple(p) in linfo]
    try:
        tr, _ = impl(seed(gf.generate), env.key(case["key"], 0), modelir.to_jnp(constraint_map(ch_ref, obs)) if obs else None, *jargs, **jkw)
        ch0 = gfi.to_np(impl(tr.get_choices))
    except ImplError as e:
        return [(f"setup_raises:{e.sig()}|{F}", str(e))], info
    f0 = refmodel.flat_leaves(ch0)
    free = [p for p in sorted(f0) if p not in obs]
    if kern == "mh":
        cand = free
    else:
        cand = [p for p in free if linfo.get(p, ("",))[0] in GRAD_DISTS]
    sel_paths = sorted({cand[i % len(cand)] for i in case["which"]}) if cand else []
    if not sel_paths:
        return [], {**info, "skipped": "nothing selectable"}
    expr = or_of(sel_paths)
    others = [p for p in sorted(f0) if p not in sel_paths]
    if case.get("sel_form") == "complement" and others:
        # the same set of leaves, written as "everything except the others" (a complement that descends into sub-calls)
        expr = ["not", or_of(others)]
        info["selection_written_as_complement"] = True
    if sorted(p for p in f0 if selref.selected(expr, p)) != sorted(sel_paths):
        raise RuntimeError("C09 harness: complement form selects a different set")
    g = selref.to_genjax(expr)
    info["selected"] = ["/".join(p) for p in sel_paths]
    info["array_valued"] = any(np.ndim(f0[p]) > 0 for p in sel_paths)
    info["into_subcall"] = any(len(p) > 1 for p in sel_paths)
    r0 = ref.score(rargs, rkw, ch0)
    unsel = [p for p in f0 if p not in sel_paths]
    eps, L = case["eps"], case["L"]
    kernel = {"mh": lambda t: mh(t, g), "mala": lambda t: mala(t, g, eps), "hmc": lambda t: hmc(t, g, eps, L)}[kern]
    C = f"{kern}|{F}"
    key = env.key(case["key"], 1)
    seedn = case["key"] + 5

    def logp_sel(x):
        return ref.score(rargs, rkw, set_paths(ch0, {p: np.asarray(v, dtype=np.float32).astype(np.float64) if False else np.asarray(v) for p, v in x.items()}))["logp"]

    try:
        # 1. force acceptance to reveal the proposal actually drawn
        prop_tr, acc, tapes = impl(run_kernel, kernel, tr, key, u=1e-30, noise_rng=np.random.default_rng(seedn) if kern != "mh" else None)
    except ImplError as e:
        return [(f"kernel_raises:{e.sig()}:{C}", f"selection {info['selected']}: {e}")], info
    chp = gfi.to_np(prop_tr.get_choices())
    fp = refmodel.flat_leaves(chp)
    try:
        rp = ref.score(rargs, rkw, chp)
    except Exception as e:  # noqa: BLE001
        return [(f"proposal_unreadable:{C}", str(e))], info
    flipped = preds_of(ref, rargs, rkw, ch0) != preds_of(ref, rargs, rkw, chp)
    info["flip"] = flipped
    finite = np.isfinite(rp["logp"])
    # unselected / observed untouched in the proposal
    for p in unsel:
        if flipped and len(p) > 1:
            continue
        if not gfi.bit_equal(fp[p], f0[p]):
            fails.append((f"unselected_touched:{C}", f"{'/'.join(p)} changed from {f0[p].tolist()} to {fp[p].tolist()} (selected {info['selected']})"))
            break
    if finite and acc:
        f2, _ = gfi.coherent(gf, ref, prop_tr, rargs, rkw, jargs, jkw, tag="accepted")
        fails += [(f"{b}:{C}", m) for b, m in f2]
    if not acc:
        # log alpha below log(1e-30): the proposal cannot be revealed through the accept path; nothing further to compare
        info["proposal_not_revealed"] = True
        if not leaves_equal(prop_tr, tr):
            fails.append((f"rejected_not_identical:{C}", "a rejected move returned a trace that differs from the input trace"))
        return fails, info
    if fails or not finite:
        return fails, info

    log_alpha = None
    if kern == "mh":
        # regenerate-from-prior proposal: every selected continuous leaf is a fresh draw (an accepted proposal that left a
        # selected leaf at its old value did not propose it)
        for p in sel_paths:
            if linfo.get(p, ("",))[0] in refmodel.CONTINUOUS and not (flipped and len(p) > 1) and np.all(np.asarray(fp[p]) == np.asarray(f0[p])):
                fails.append((f"selected_not_proposed:{C}", f"mh accepted a proposal in which the selected address {'/'.join(p)} kept its old value {np.asarray(f0[p]).ravel()[:3].tolist()} (selection {selref.show(expr)})"))
                return fails, info
        if not flipped:
            log_alpha = sum(float(np.sum(rp["site"][p]) - np.sum(r0["site"][p])) for p in unsel)
    else:
        x0 = {p: np.asarray(f0[p], dtype=np.float64) for p in sel_paths}
        g0 = fd_grad(logp_sel, x0)
        xi = tapes["normal"].draws
        reqs = tapes["normal"].requests
        n_coords = sum(int(np.size(f0[p])) for p in sel_paths)
        n_drawn = sum(int(np.size(v)) for v in xi)
        if len(reqs) and n_drawn != n_coords:
            fails.append((f"noise_not_per_coordinate:{C}", f"{kern} drew {n_drawn} standard-normal variate(s) (requests {[tuple(k.get('sample_shape', ())) for _, k in reqs]}) for {n_coords} selected coordinates {info['selected']}: coordinates share noise"))
            return fails, info
        if not reqs:
            info["tape_unused"] = True
            return fails, info
        # leaves are visited in sorted-key order of the selected choice dict (jax tree order)
        order = sorted(sel_paths)
        noise = {p: np.asarray(v, dtype=np.float64).reshape(np.shape(f0[p])) for p, v in zip(order, xi)}
        if kern == "mala":
            y = {p: x0[p] + 0.5 * eps**2 * g0[p] + eps * noise[p] for p in order}
            mag = {p: 0.5 * eps**2 * np.abs(g0[p]) + eps * np.abs(noise[p]) for p in order}  # size of the move's components
            gy = fd_grad(logp_sel, y)
            lq_fwd = sum(float(np.sum(ss.norm.logpdf(y[p], x0[p] + 0.5 * eps**2 * g0[p], eps))) for p in order)
            lq_bwd = sum(float(np.sum(ss.norm.logpdf(x0[p], y[p] + 0.5 * eps**2 * gy[p], eps))) for p in order)
            log_alpha = logp_sel(y) - logp_sel(x0) + lq_bwd - lq_fwd
            what = "x + step_size^2/2 * grad log p(x) + step_size * xi"
        else:
            x = {p: v.copy() for p, v in x0.items()}
            mom = {p: noise[p].copy() for p in order}
            mag = {p: np.zeros_like(x0[p]) for p in order}
            gr = g0
            for _ in range(L):
                mom = {p: mom[p] + 0.5 * eps * gr[p] for p in order}
                x = {p: x[p] + eps * mom[p] for p in order}
                mag = {p: mag[p] + eps * np.abs(mom[p]) for p in order}
                gr = fd_grad(logp_sel, x)
                mom = {p: mom[p] + 0.5 * eps * gr[p] for p in order}
            y = x
            k0 = sum(float(np.sum(ss.norm.logpdf(noise[p]))) for p in order)
            k1 = sum(float(np.sum(ss.norm.logpdf(mom[p]))) for p in order)
            log_alpha = (logp_sel(y) + k1) - (logp_sel(x0) + k0)
            what = f"{L} leapfrog steps of size {eps} from the scripted momentum"
        for p in order:
            # float32 resolution of the position plus a relative error of the move itself (so that a move of size 1e-3 on a
            # tight target is resolved as well as a move of size 1 on a wide one)
            scale = 1.0 + np.abs(y[p]) + np.abs(x0[p])
            tol = 4e-6 * scale + 6e-3 * mag[p] * (1 + (L if kern == "hmc" else 0))
            if not np.all(np.abs(np.asarray(fp[p], dtype=np.float64) - y[p]) <= tol):
                fails.append((f"proposal:{C}", f"{'/'.join(p)}: proposed {np.asarray(fp[p]).ravel()[:4].tolist()} but {what} gives {y[p].ravel()[:4].tolist()} (x = {x0[p].ravel()[:4].tolist()}, grad = {g0[p].ravel()[:4].tolist()}, noise = {noise[p].ravel()[:4].tolist()})"))
                return fails, info
    # 2. the acceptance threshold actually applied
    if log_alpha is not None and np.isfinite(log_alpha) and (kern == "mh" or log_alpha > -8.0):
        # (for mala/hmc a log acceptance ratio below -8 comes from a large energy error: float32 and float64
        #  trajectories then differ by more than any useful margin, so the threshold is not asserted)
        alpha = min(1.0, math.exp(min(log_alpha, 0.0)))
        info["alpha"] = alpha
        margin = 0.04 if kern != "mh" else 0.004
        probes = []
        if alpha * (1 - margin) > 1e-12:
            probes.append((alpha * (1 - margin), True))
        if alpha * (1 + margin) < 1.0:
            probes.append((alpha * (1 + margin), False))
        elif alpha >= 1.0:
            probes.append((0.999, True))
        for u, should in probes:
            out, acc, _ = impl(run_kernel, kernel, tr, key, u=u, noise_rng=np.random.default_rng(seedn) if kern != "mh" else None)
            if acc != should:
                fails.append((f"accept_threshold:{C}", f"reference MH acceptance probability is {alpha:.6g}; with accept-uniform u={u:.6g} the kernel {'accepted' if acc else 'rejected'} (selected {info['selected']}, flip={flipped})"))
                break
            if not acc and not leaves_equal(out, tr):
                fails.append((f"rejected_not_identical:{C}", "a rejected move returned a trace that differs from the input trace"))
                break
            if acc and not leaves_equal(out.get_choices(), prop_tr.get_choices()):
                fails.append((f"accepted_not_the_proposal:{C}", "an accepted move returned choices other than the revealed proposal"))
                break
    return fails, info


# ------------------------------------------------------------------------------------------ mixture indicator
def classify_mixture(case, ctx=None, n1=4000):
    import jax
    import jax.numpy as jnp
    from genjax import Cond, flip, gen, normal, seed, sel
    from genjax.inference import mh
    from genjax.state import state

    p, m1, s1, m0, s0, y, vec = case["p"], case["m1"], case["s1"], case["m0"], case["s0"], case["y"], case["vec"]
    C = "mixture_indicator" + (":vector_obs" if vec else "")
    fails, info = [], {"family": C}

    @gen
    def b1(shift):
        if vec:
            return normal.vmap(in_axes=(0, None))(jnp.stack([m1 + shift, m1 - shift]), s1) @ "y"
        return normal(m1 + shift, s1) @ "y"

    @gen
    def b0(shift):
        if vec:
            return normal.vmap(in_axes=(0, None))(jnp.stack([m0 + shift, m0 - shift]), s0) @ "y"
        return normal(m0 + shift, s0) @ "y"

    @gen
    def model(shift):
        z = flip(p) @ "z"
        Cond(b1, b0)(z, shift) @ "c"
        return z

    shift = 0.25
    yv = jnp.asarray(np.asarray([y, y - 0.5], dtype=np.float32)) if vec else jnp.asarray(np.float32(y))

    def lik(z):
        m, s = (m1, s1) if z else (m0, s0)
        if vec:
            return float(np.sum(ss.norm.logpdf(np.asarray([y, y - 0.5], dtype=np.float32).astype(np.float64), [m + shift, m - shift], s)))
        return float(ss.norm.logpdf(np.float64(np.float32(y)), m + shift, s))

    prior = {True: p, False: 1 - p}
    kernel = lambda t: mh(t, sel("z"))  # noqa: E731
    try:
        for z0 in (False, True):
            tr, _ = impl(seed(model.generate), env.key(case["key"], 0), {"z": jnp.asarray(z0), "c": {"y": yv}}, jnp.asarray(np.float32(shift)))
            # scripted: reveal proposal, then threshold
            prop, acc, _ = impl(run_kernel, kernel, tr, env.key(case["key"], 1), u=1e-30)
            z1 = bool(np.asarray(prop.get_choices()["z"]))
            alpha = min(1.0, math.exp(lik(z1) - lik(z0)))
            if not gfi.bit_equal(np.asarray(prop.get_choices()["c"]["y"]), np.asarray(yv)):
                fails.append((f"observed_touched:{C}", "the observed y changed under mh on the indicator"))
            for u, should in ([(alpha * 0.996, True)] if alpha > 1e-12 else []) + ([(alpha * 1.004, False)] if alpha * 1.004 < 1 else [(0.999, True)]):
                out, a2, _ = impl(run_kernel, kernel, tr, env.key(case["key"], 1), u=u)
                if a2 != should:
                    fails.append((f"accept_threshold:{C}", f"z: {z0} -> {z1}: MH acceptance probability is p(y|z')/p(y|z) = {alpha:.6g}; with u={u:.6g} the kernel {'accepted' if a2 else 'rejected'}"))
                    break
                if not a2 and not leaves_equal(out, tr):
                    fails.append((f"rejected_not_identical:{C}", "rejected move differs from the input trace"))
                if a2:
                    sc = float(np.asarray(out.get_score()))
                    want = -(math.log(prior[z1]) + lik(z1))
                    if abs(sc - want) > 1e-3 + 1e-5 * abs(want):
                        fails.append((f"accepted.score:{C}", f"after the accepted indicator move z={z1}: trace score {sc} != -log p(z, y) = {want}"))
            if fails:
                return fails, info
        # distributional: full one-step transition matrix
        if n1:
            c = ctx if ctx is not None else type("C", (), {"stat_tests": 0, "stat_stage2": 0})()
            for z0 in (False, True):
                tr, _ = seed(model.generate)(env.key(case["key"], 0), {"z": jnp.asarray(z0), "c": {"y": yv}}, jnp.asarray(np.float32(shift)))
                bs = jax.jit(jax.vmap(lambda k: seed(lambda t: state(kernel)(t)[0])(k, tr).get_choices()["z"]))
                # P(z'=1 | z0): propose from prior, accept with min(1, lik ratio)
                def a(zf, zt):
                    return min(1.0, math.exp(lik(zt) - lik(zf)))

                p1 = (p * a(z0, True)) if not z0 else (p * 1.0 + (1 - p) * (1 - a(True, False)))

                def pfun(n, stage):
                    zs = np.asarray(impl(bs, jax.random.split(env.key(case["key"], 20 + stage + 10 * int(z0)), n)))
                    k1 = int(zs.sum())
                    return stats.chi2_p([k1, n - k1], [p1, 1 - p1])

                res = stats.two_stage(c, pfun, n1)
                if res:
                    fails.append((f"transition_matrix:{C}", f"from z={z0}: frequency of z'=True differs from the reference MH transition probability {p1:.5f}: {res}"))
    except ImplError as e:
        fails.append((f"raises:{e.sig()}:{C}", str(e)))
    return fails, info


# ------------------------------------------------------------------------------------------ stationarity (conjugate)
def classify_stationary(case, ctx=None, n1=4000):
    import jax
    import jax.numpy as jnp
    from genjax import gen, normal, seed, sel
    from genjax.inference import hmc, mala, mh
    from genjax.state import state

    kern, tau, s, eps, L, d = case["kernel"], case["tau"], case["s"], case["eps"], case["L"], case["d"]
    if case.get("steep"):
        # a tight likelihood: |grad log p| ~ 1/s >> 1 over the bulk of the posterior; step size relative to the posterior sd
        s = case["steep"]
        eps = float(np.float32(case["eps_rel"] * math.sqrt(1.0 / (1.0 / tau**2 + 1.0 / s**2))))
    ys = np.asarray(case["ys"][:d], dtype=np.float32)
    C = f"{kern}:{'vector' if d > 1 else 'scalar'}" + (":steep" if case.get("steep") else "")
    fails, info = [], {"family": "conjugate_normal", "kernel": kern, "d": d}

    @gen
    def model():
        if d > 1:
            x = normal.vmap(in_axes=(0, None))(jnp.zeros(d), tau) @ "x"
            normal.vmap(in_axes=(0, None))(x, s) @ "y"
        else:
            x = normal(0.0, tau) @ "x"
            normal(x, s) @ "y"
        return x

    pv = 1.0 / (1.0 / tau**2 + 1.0 / s**2)
    pm = pv * ys.astype(np.float64) / s**2
    kernel = {"mh": lambda t: mh(t, sel("x")), "mala": lambda t: mala(t, sel("x"), eps), "hmc": lambda t: hmc(t, sel("x"), eps, L)}[kern]
    yv = jnp.asarray(ys) if d > 1 else jnp.asarray(ys[0])
    c = ctx if ctx is not None else type("C", (), {"stat_tests": 0, "stat_stage2": 0})()

    def step(x0):
        tr, _ = model.generate({"x": x0, "y": yv})
        out, st = state(kernel)(tr)
        return out.get_choices()["x"], out.get_choices()["y"], st["accept"]

    bs = jax.jit(jax.vmap(lambda k, x0: seed(step)(k, x0)))

    def draw(n, stage):
        rng = np.random.default_rng(case["key"] + stage)
        x0 = (pm + math.sqrt(pv) * rng.standard_normal((n, d))).astype(np.float32)
        x0j = jnp.asarray(x0 if d > 1 else x0[:, 0])
        x1, y1, acc = impl(bs, jax.random.split(env.key(case["key"], 40 + stage), n), x0j)
        return x0, np.asarray(x1, dtype=np.float64).reshape(n, d), np.asarray(y1), np.asarray(acc)

    try:
        def pfun(n, stage):
            x0, x1, y1, acc = draw(n, stage)
            if not np.all(y1.reshape(n, d) == ys):
                return 0.0, {"observed_changed": True}
            u = ss.norm.cdf((x1 - pm) / math.sqrt(pv))
            ps = [stats.ks_uniform_p(u[:, j]) for j in range(d)]
            return min(1.0, min(ps) * d), {"accept_rate": float(acc.mean())}

        res = stats.two_stage(c, pfun, n1)
        if res:
            fails.append((f"stationarity:{C}", f"one {kern} step from exact posterior samples does not return posterior samples (tau={tau}, s={s}, eps={eps}, L={L}): {res}"))
        else:
            # detailed balance statistic: E[g(x0) h(x1) - g(x1) h(x0)] = 0
            def pfun2(n, stage):
                x0, x1, _, _ = draw(n, stage + 2)
                z0, z1 = (x0 - pm) / math.sqrt(pv), (x1 - pm) / math.sqrt(pv)
                D = np.tanh(z0[:, 0]) * (z1[:, 0] ** 2) - np.tanh(z1[:, 0]) * (z0[:, 0] ** 2)
                return stats.block_mean_t_p(D, 0.0)

            res = stats.two_stage(c, pfun2, n1)
            if res:
                fails.append((f"detailed_balance:{C}", f"reversibility statistic has non-zero mean: {res}"))
            if d > 1 and not fails:
                def pfun3(n, stage):
                    x0, x1, _, acc = draw(n, stage + 4)
                    mv = (x1 - x0)[acc.astype(bool)]
                    if mv.shape[0] < 100:
                        return 1.0, {}
                    # accepted moves: coordinates must not move by identical noise (shared variate)
                    same = np.mean(np.abs((mv[:, 0] - mv[:, 1])) < 1e-6)
                    return (0.0 if same > 0.5 else 1.0), {"frac_equal_moves": float(same)}

                if kern != "mh":
                    res = stats.two_stage(c, pfun3, n1)
                    if res and np.std(ys) < 1e-6:
                        fails.append((f"shared_noise:{C}", f"coordinates move by the same amount: {res}"))
    except ImplError as e:
        fails.append((f"raises:{e.sig()}:{C}", str(e)))
    return fails, info


# ------------------------------------------------------------------------------------------ strategies / driver
def ir_cases(force=None):
    from hypothesis import strategies as st

    @st.composite
    def _c(draw):
        p = draw(modelir.programs(discrete=False, force=force, event_dists=["mvnormal"]))
        ref = refmodel.Ref(p["prog"])
        paths = sorted(ref.leaf_info(*gfi.ref_args(p)))
        return {"kind": "ir", **p, "key": draw(st.integers(0, 2**30)), "observed": [list(q) for q in draw(st.lists(st.sampled_from(paths), unique=True, max_size=max(1, len(paths) // 2)))],
                "kernel": draw(st.sampled_from(["mh", "mala", "hmc"])), "which": draw(st.lists(st.integers(0, 9), min_size=1, max_size=3)),
                "eps": draw(st.sampled_from([0.05, 0.2, 0.6, 1.2])), "L": draw(st.integers(1, 4)), "sel_form": draw(st.sampled_from(["or", "or", "complement"]))}

    return _c()


def fam_cases():
    from hypothesis import strategies as st

    f = lambda lo, hi: st.floats(lo, hi, allow_nan=False).map(lambda x: round(x, 2))  # noqa: E731
    mix = st.fixed_dictionaries({"kind": st.just("mixture"), "p": f(0.1, 0.9), "m1": f(-2, 2), "s1": f(0.5, 2.0), "m0": f(-2, 2), "s0": f(0.5, 2.0), "y": f(-3, 3),
                                 "vec": st.booleans(), "key": st.integers(0, 2**30)})
    stat = st.fixed_dictionaries({"kind": st.just("stationary"), "kernel": st.sampled_from(["mh", "mala", "hmc"]), "tau": f(0.5, 2.0), "s": f(0.4, 2.0),
                                  "eps": st.sampled_from([0.1, 0.4, 0.9, 1.5]), "L": st.integers(1, 5), "d": st.sampled_from([1, 1, 2, 3]),
                                  "ys": st.lists(f(-2, 2), min_size=3, max_size=3), "key": st.integers(0, 2**30),
                                  "steep": st.sampled_from([None, None, 0.002, 0.005, 0.01]), "eps_rel": st.sampled_from([0.5, 1.0, 1.4])})
    return st.one_of(mix, stat)


def one_case(ctx, case):
    P = plan(ctx)
    env.reset()
    if case["kind"] == "ir":
        fails, info = classify_ir(case)
        nt = ("selected" in info) and (info.get("array_valued") or info.get("into_subcall") or len(info["selected"]) >= 1)
        cls = [f"C09.ir_{case['kernel']}"] + ([f"C09.selected_array_valued"] if info.get("array_valued") else []) + (["C09.selection_inside_subcall"] if info.get("into_subcall") else []) + \
              (["C09.threshold_checked"] if "alpha" in info else []) + (["C09.selection_written_as_complement"] if info.get("selection_written_as_complement") else []) + (["C09.move_flipped_cond(threshold_not_asserted)"] if info.get("flip") else []) + [f"C09.prog_with_{f}" for f in sorted(modelir.features(case["prog"]))]
        sample = {"program": case["prog"], "kernel": case["kernel"], "eps": case["eps"], "L": case["L"], "info": info}
    elif case["kind"] == "mixture":
        fails, info = classify_mixture(case, ctx, P["n1"])
        nt, cls, sample = True, ["C09.mixture_indicator"], case
    else:
        fails, info = classify_stationary(case, ctx, P["n1"])
        nt, cls, sample = True, [f"C09.stationary_{case['kernel']}", f"C09.stationary_d{min(case['d'], 2)}"] + (["C09.stationary_steep_target"] if case.get("steep") else []), case
    ctx.case(case, bool(nt), cls, sample=sample)
    for b, w in fails:
        ctx.fail(b, w, case)


def run_shard(ctx):
    P = plan(ctx)
    forces = ["scan", "vmap", "indicator", "cond", "vdist", "call", "condm", "detcall"]
    drive(ctx, ir_cases(forces[ctx.shard % len(forces)]), P["n_ir"], lambda c: one_case(ctx, c), "ir")
    nk = modelir.NEST_KINDS  # combinators applied directly to combinators
    drive(ctx, ir_cases(nk[ctx.shard % len(nk)]), P.get("n_nest", max(1, P["n_ir"] // 3)), lambda c: one_case(ctx, c), "nest")
    drive(ctx, fam_cases(), P["n_fam"], lambda c: one_case(ctx, c), "fam")


def replay(case):
    if case["kind"] == "ir":
        return classify_ir(case)[0]
    if case["kind"] == "mixture":
        return classify_mixture(case, None, 4000)[0]
    return classify_stationary(case, None, 4000)[0]
