"""C02 - generate honours constraints and returns the proper importance weight."""
import numpy as np

from harness import env, gfi, lawtest, modelir, refmodel, stats
from harness.engine import ImplError, drive, impl
from harness.plans import plan
from harness.props.c01 import feat

ID = "C02"


def subset_class(paths, S, info):
    """structural class of a constraint subset (for counters and buckets)."""
    S = set(S)
    if not S:
        return "none"
    if S == set(paths):
        return "all"
    tops = {p[0] for p in paths if len(p) > 1 or info[p][1]}
    missing_whole = [t for t in tops if not any(p[0] == t for p in S)]
    partial_inside = [t for t in tops if any(p[0] == t for p in S) and any(p[0] == t and p not in S for p in paths)]
    if partial_inside:
        return "partial_inside_subcall"
    if missing_whole:
        return "whole_subcall_missing"
    return "partial_top"


def constraint_map(ch_ref, S):
    flat = refmodel.flat_leaves(ch_ref)
    return refmodel.nest({tuple(p): flat[tuple(p)] for p in S})


def classify(case, ctx=None, n1=400, do_law=True):
    import jax
    from genjax import seed

    prog = case["prog"]
    F = feat(prog)
    fails, info = [], {"features": F}
    ref = refmodel.Ref(prog)
    rargs, rkw = gfi.ref_args(case)
    jargs, jkw = modelir.jargs(case)
    gf = impl(modelir.build, prog)
    rng = np.random.default_rng(case["key"])
    ch_ref, _ = ref.sample(rargs, rkw, rng)
    linfo = ref.leaf_info(rargs, rkw)
    paths = sorted(linfo)
    S = [tuple(p) for p in case["subset"]]
    S = [p for p in S if p in linfo]
    cls = subset_class(paths, S, linfo)
    info["subset_class"] = cls
    C = f"{cls}|{F}"
    mode = case.get("none_as", "dict")
    cons = constraint_map(ch_ref, S)
    jcons = None if (not S and mode == "None") else modelir.to_jnp(cons)
    aj = gfi.jit_assess(gf)

    def wref(r):
        return sum(float(np.sum(r["site"][p])) for p in S)

    k0 = env.key(case["key"], 1)
    try:
        tr, w = impl(seed(gf.generate), k0, jcons, *jargs, **jkw)
    except ImplError as e:
        return [(f"generate_raises:{e.sig()}:{C}", f"constraints on {S} (class {cls}): {e}")], info
    f2, r = gfi.coherent(gf, ref, tr, rargs, rkw, jargs, jkw, tag="generate", assess=aj)
    fails += [(f"{b}:{C}", m) for b, m in f2]
    if r is not None:
        got = gfi.flat(gfi.to_np(tr.get_choices()))
        flatc = refmodel.flat_leaves(cons) if S else {}
        for p in S:
            if p not in got or not gfi.bit_equal(np.asarray(got[p]), np.asarray(flatc[p])):
                fails.append((f"constrained_value_changed:{C}", f"address {'/'.join(p)} constrained to {np.asarray(flatc[p]).tolist()} but the trace holds {np.asarray(got.get(p)).tolist() if p in got else 'nothing'}"))
                break
        w = float(np.asarray(w))
        if not gfi.close(w, wref(r), r["mag"]):
            fails.append((f"weight:{C}", f"generate weight {w} != sum of log-probs of constrained choices given parents {wref(r)} (constraints {S}); choices={gfi._short(gfi.to_np(tr.get_choices()))}"))
        if cls == "all":
            lp = float(np.sum(np.asarray(impl(aj, tr.get_choices(), tuple(jargs), dict(jkw))[0])))
            if not gfi.close(w, lp, r["mag"]):
                fails.append((f"weight_all_constrained_vs_assess:{C}", f"weight {w} != assess {lp}"))
        if cls == "none" and w != 0.0:
            fails.append((f"weight_nothing_constrained:{C}", f"weight {w} != 0 with no constraints"))

    if do_law and not fails and cls != "all":
        def one(k):
            t, ww = seed(gf.generate)(k, jcons, *jargs, **jkw)
            return t.get_choices(), t.get_score(), t.get_retval(), ww

        bs = jax.jit(jax.vmap(one))

        def draw(n, stage):
            keys = jax.random.split(env.key(case["key"], 10 + stage), n)
            ch, sc, rv, ww = impl(bs, keys)
            return gfi.to_np(ch), np.asarray(sc), np.asarray(rv), np.asarray(ww)

        try:
            f3, li = lawtest.check_law(ctx, prog, ref, rargs, rkw, draw, n1, F, case["key"], fixed=cons if S else None,
                                       fixed_paths=S, extra_name="weight", extra_ref=wref, tag="law")
            fails += [(b.replace("|", f":{cls}|", 1), m) for b, m in f3]
            info.update(li)
            # E[exp(weight)] = marginal probability of the constraints: bounded statistic when constraints are discrete
            if li.get("law") == "exact-pmf" and S:
                enum = ref.enumerate(rargs, rkw, limit=2048, given=cons)
                Z = float(np.sum(np.exp([lp for _, lp, _, _ in enum])))
                c = ctx if ctx is not None else lawtest._NoCtx()

                def pfun(n, stage):
                    _, _, _, ww = draw(n, 20 + stage)
                    return stats.bernstein_mean_p(np.exp(ww), Z, 0.0, 1.0)

                res = stats.two_stage(c, pfun, n1 * 8)
                info["marginal"] = Z
                if res:
                    fails.append((f"law.mean_exp_weight:{cls}|{F}", f"E[exp(weight)] differs from the exact marginal probability {Z} of the constraints: {res}"))
        except ImplError as e:
            fails.append((f"generate_batch_raises:{e.sig()}:{C}", str(e)))
    return fails, info


def cases(discrete, force=None):
    from hypothesis import strategies as st

    @st.composite
    def _c(draw):
        p = draw(modelir.programs(discrete=discrete, force=force))
        ref = refmodel.Ref(p["prog"])
        paths = sorted(ref.leaf_info(*gfi.ref_args(p)))
        kind = draw(st.sampled_from(["none", "all", "rand", "rand", "rand", "sub"]))
        if kind == "none":
            S = []
        elif kind == "all":
            S = paths
        elif kind == "sub":  # everything except one whole top-level sub-call / address
            top = draw(st.sampled_from(sorted({q[0] for q in paths})))
            S = [q for q in paths if q[0] != top]
        else:
            S = sorted(draw(st.sets(st.sampled_from(paths), min_size=1, max_size=len(paths))))
        return {**p, "key": draw(st.integers(0, 2**30)), "discrete": discrete, "subset": [list(q) for q in S],
                "none_as": draw(st.sampled_from(["None", "dict"]))}

    return _c()


def run_shard(ctx):
    P = plan(ctx)

    def one(case):
        env.reset()
        fails, info = classify(case, ctx, P["n1"])
        prog = case["prog"]
        fs = modelir.features(prog)
        cls = info.get("subset_class", "?")
        nt = (cls in ("partial_inside_subcall", "whole_subcall_missing", "partial_top")) and (bool(fs & {"vmap", "scan", "cond", "vdist", "call", "nest"}) or "dep" in fs)
        ctx.case(case, nt, [f"C02.subset_{cls}"] + [f"C02.prog_with_{f}" for f in sorted(fs)] + [f"C02.law_{info.get('law', 'none')}"],
                 sample={"program": prog, "args": case["args"], "kwargs": case["kwargs"], "constrained": case["subset"], "info": info})
        for b, w in fails:
            ctx.fail(b, w, case)

    n = P["n_cases"]
    forces = [None, "scan", "vmap", "cond", "vdist", "call", "detcall", "condm"]
    drive(ctx, cases(False, forces[ctx.shard % len(forces)]), n - n // 3, one, "cont")
    drive(ctx, cases(True, forces[(ctx.shard + 1) % len(forces)]), n // 3, one, "disc")
    nk = modelir.NEST_KINDS  # combinators applied directly to combinators
    drive(ctx, cases(ctx.shard % 3 == 2, nk[ctx.shard % len(nk)]), P.get("n_nest", max(2, n // 3)), one, "nest")


def replay(case):
    return classify(case, None, 400)[0]
