"""C19 - state/save is transparent and collects exactly what was saved (reference collector = direct interpretation)."""
import numpy as np

from harness import env
from harness.engine import ImplError, drive, impl
from harness.plans import plan

ID = "C19"
# Node := ["save", name, E] | ["tag", name, E, E] | ["ns", name, [Node]] | ["nsleaf", name, [E]]
#       | ["scan", n, [Node], E_carry_increment] | ["vmap", n, [Node], "jax"|"modular"] | ["sample"]
# E    := [ax, bt, dl, gc, e]   value = ax*x + bt*t + dl*l + gc*c + e   (t: innermost scan index, l: innermost lane, c: carry)


def ev(e, v):
    return e[0] * v["x"] + e[1] * v["t"] + e[2] * v["l"] + e[3] * v["c"] + e[4]


# ------------------------------------------------------------------ reference collector (numpy, sequential semantics)
# Reference values are Val(array, axes): `axes` names the batch axes of the array, outermost first, e.g. ("v0","s1").
# A value saved under a vmap is batched along that vmap's axis iff it data-depends on the lane (this is how jax.vmap
# treats any intermediate value); a value saved in a scan body is always stacked along the iteration axis.
class Val:
    def __init__(self, a, axes=()):
        self.a, self.axes = np.asarray(a, dtype=np.float64), tuple(axes)


def deep_merge(dst, src):
    for k, val in src.items():
        if isinstance(val, dict) and isinstance(dst.get(k), dict):
            deep_merge(dst[k], val)
        else:
            dst[k] = val


def map_leaves(f, d):
    if isinstance(d, dict):
        return {k: map_leaves(f, v) for k, v in d.items()}
    if isinstance(d, tuple):
        return tuple(map_leaves(f, v) for v in d)
    return f(d)


def stack_level(ds, axis_name, force):
    """Combine the per-iteration / per-lane dicts of one loop level."""
    out = {}
    for k in ds[0]:
        vals = [d[k] for d in ds]
        if isinstance(vals[0], dict):
            out[k] = stack_level(vals, axis_name, force)
        elif isinstance(vals[0], tuple):
            out[k] = tuple(_stack([v[i] for v in vals], axis_name, force) for i in range(len(vals[0])))
        else:
            out[k] = _stack(vals, axis_name, force)
    return out


def _stack(vals, axis_name, force):
    dep = force or any(not np.array_equal(v.a, vals[0].a) for v in vals)
    if not dep:
        return vals[0]
    return Val(np.stack([v.a for v in vals]), (axis_name,) + vals[0].axes)


def ref_run(nodes, v, coll, level=0):
    """Interpret nodes; `coll` is the dict at the current namespace level."""
    for nd in nodes:
        k = nd[0]
        if k == "save":
            coll[nd[1]] = Val(ev(nd[2], v))
        elif k == "tag":
            coll[nd[1]] = (Val(ev(nd[2], v)), Val(ev(nd[3], v)))
        elif k == "ns":
            sub = {}
            ref_run(nd[2], v, sub, level)
            if sub:
                if isinstance(coll.get(nd[1]), dict):
                    deep_merge(coll[nd[1]], sub)
                else:
                    coll[nd[1]] = sub
        elif k == "nsleaf":
            vals = tuple(Val(ev(e, v)) for e in nd[2])
            coll[nd[1]] = vals if len(vals) > 1 else vals[0]
        elif k == "scan":
            c, per = 0.0, []
            for t in range(nd[1]):
                v2 = {**v, "t": v["t"] * 10.0 + float(t + 1), "c": c}
                d = {}
                ref_run(nd[2], v2, d, level + 1)
                per.append(d)
                c = c + ev(nd[3], v2)
            if per and per[0]:
                deep_merge(coll, stack_level(per, f"s{level}", True))
        elif k == "vmap":
            per = []
            for lane in range(nd[1]):
                d = {}
                ref_run(nd[2], {**v, "l": v["l"] * 10.0 + float(lane + 1)}, d, level + 1)
                per.append(d)
            if per and per[0]:
                deep_merge(coll, stack_level(per, f"v{level}", True))
        elif k == "sample":
            pass
    return coll


def ref_result(nodes, x):
    return 2.0 * x + 1.0


# ------------------------------------------------------------------ jax builder
def build(nodes, with_samples):
    import jax
    import jax.numpy as jnp
    from genjax import modular_vmap, normal
    from genjax.state import namespace, save, tag_state

    def run(nodes, v):
        """returns 0 * (sum of the samples drawn in these nodes): keeps sampling sites alive without side effects"""
        extra = jnp.zeros((), jnp.float32)
        for nd in nodes:
            k = nd[0]
            if k == "save":
                save(**{nd[1]: ev(nd[2], v)})
            elif k == "tag":
                tag_state(ev(nd[2], v), ev(nd[3], v), name=nd[1])
            elif k == "ns":
                extra = extra + namespace(lambda nd=nd: run(nd[2], v), nd[1])()
            elif k == "nsleaf":
                namespace(lambda nd=nd: save(*[ev(e, v) for e in nd[2]]), nd[1])()
            elif k == "scan":
                def body(c, t, nd=nd):
                    v2 = {**v, "t": v["t"] * 10.0 + (t + 1).astype(jnp.float32), "c": c[0]}
                    ex = run(nd[2], v2)
                    return (c[0] + ev(nd[3], v2), c[1] + ex), None

                z = jnp.zeros((), jnp.float32)
                (_, ex), _ = jax.lax.scan(body, (z + 0.0 * v["x"], z), jnp.arange(nd[1]))
                extra = extra + ex
            elif k == "vmap":
                def lanefn(l, nd=nd):
                    return run(nd[2], {**v, "l": v["l"] * 10.0 + l + 1.0})

                vm = jax.vmap if nd[3] == "jax" else modular_vmap
                extra = extra + jnp.sum(vm(lanefn)(jnp.arange(nd[1], dtype=jnp.float32)))
            elif k == "sample":
                if with_samples:
                    extra = extra + 0.0 * normal.sample(0.0, 1.0)
        return extra

    def f(x):
        z = jnp.zeros((), jnp.float32)
        return 2.0 * x + 1.0 + run(nodes, {"x": x, "t": z, "l": z, "c": z})

    return f


def structure(d):
    if isinstance(d, Val):
        return tuple(d.a.shape)
    if isinstance(d, dict):
        return {k: structure(v) for k, v in sorted(d.items())}
    if isinstance(d, tuple):
        return tuple(structure(v) for v in d)
    return tuple(np.shape(d))


def prune_empty(d):
    """A namespace under which nothing was saved holds no value: {'ns': {}} and {} say the same thing about what was saved
    (observed under seed for a namespace around a scan body that only samples)."""
    if not isinstance(d, dict):
        return d
    out = {k: prune_empty(v) for k, v in d.items()}
    return {k: v for k, v in out.items() if not (isinstance(v, dict) and not v)}


def compare(got, want, path=""):
    """-> list of (kind, message)"""
    if isinstance(want, dict):
        if not isinstance(got, dict):
            return [("structure", f"at '{path}': expected a namespace dict with keys {sorted(want)}, got {type(got).__name__} {structure(got)}")]
        out = []
        if set(got) != set(want):
            out.append(("keys", f"at '{path}': collected keys {sorted(got)} != saved names {sorted(want)}"))
        for k in want:
            if k in got:
                out += compare(got[k], want[k], f"{path}/{k}")
        return out
    if isinstance(want, tuple):
        if not isinstance(got, (tuple, list)) or len(got) != len(want):
            return [("structure", f"at '{path}': expected a tuple of {len(want)} values, got {structure(got)}")]
        out = []
        for i, (g, w) in enumerate(zip(got, want)):
            out += compare(g, w, f"{path}[{i}]")
        return out
    if isinstance(got, (dict, tuple, list)):
        return [("structure", f"at '{path}': expected an array of shape {np.shape(want.a)}, got {structure(got)}")]
    g, w = np.asarray(got, dtype=np.float64), want.a
    # the statement fixes the iteration axis of scans; where a vmap axis sits relative to other batch axes is not
    # specified, so any placement of the vmap axes is accepted (values encode their indices, so this is unambiguous)
    import itertools

    # candidates: a vmap axis along which the saved value is constant (it does not depend on the lane) may be
    # present (broadcast) or absent; vmap axes may sit anywhere
    vaxes = [i for i, a in enumerate(want.axes) if a.startswith("v")]
    const = [i for i in vaxes if np.all(w == np.take(w, [0], axis=i))]
    cands = []
    for r in range(len(const) + 1):
        for drop in itertools.combinations(const, r):
            wd = np.take(w, 0, axis=drop[0]) if len(drop) == 1 else w
            if len(drop) > 1:
                wd = w
                for ax in sorted(drop, reverse=True):
                    wd = np.take(wd, 0, axis=ax)
            perms = itertools.permutations(range(wd.ndim)) if vaxes else [tuple(range(wd.ndim))]
            for p_ in perms:
                cands.append(np.transpose(wd, p_))
    if not any(g.shape == c.shape for c in cands):
        return [("shape", f"at '{path}': shape {g.shape} != expected {w.shape} (axes {want.axes}: s=scan iteration, v=vmap lane)")]
    if not any(g.shape == c.shape and np.all(np.abs(g - c) <= 1e-3 + 1e-5 * np.abs(c)) for c in cands):
        return [("value", f"at '{path}': {g.tolist()} != saved values {w.tolist()} (axes {want.axes})")]
    return []


def kinds(nodes, enclosing=(), acc=None):
    """set of 'enclosing construct chains' under which a save occurs, e.g. ('ns','scan')"""
    acc = set() if acc is None else acc
    for nd in nodes:
        if nd[0] in ("save", "tag"):
            acc.add(enclosing)
        elif nd[0] == "nsleaf":
            acc.add(enclosing + ("ns",))
        elif nd[0] == "ns":
            kinds(nd[2], enclosing + ("ns",), acc)
        elif nd[0] == "scan":
            kinds(nd[2], enclosing + ("scan",), acc)
        elif nd[0] == "vmap":
            kinds(nd[2], enclosing + (f"vmap",), acc)
    return acc


def classify(case):
    import jax
    import jax.numpy as jnp
    from genjax import seed
    from genjax.state import state

    nodes, x, cfg = case["nodes"], float(np.float32(case["x"])), case["config"]
    ch = sorted({"+".join(c) or "top" for c in kinds(nodes)})
    K = "|" + "+".join(sorted({k for c in kinds(nodes) for k in c})) if any(kinds(nodes)) else "|top"
    fails = []
    want = ref_run(nodes, {"x": x, "t": 0.0, "l": 0.0, "c": 0.0}, {})
    f = build(nodes, cfg == "seed")
    jx = jnp.asarray(np.float32(x))
    # the same transformed function object is called a second time with another value: the dictionary returned by the first
    # call is read only afterwards (a collector shared between calls would show the later values in it)
    x2 = float(np.float32(x + 1.25))
    jx2 = jnp.asarray(np.float32(x2))
    want2 = ref_run(nodes, {"x": x2, "t": 0.0, "l": 0.0, "c": 0.0}, {})
    try:
        if cfg == "eager":
            sf = state(f)
            res, got = impl(sf, jx)
            res2, got2 = impl(sf, jx2)
            plain = impl(f, jx)
        elif cfg == "jit":
            sf = jax.jit(state(f))
            res, got = impl(sf, jx)
            res2, got2 = impl(sf, jx2)
            plain = impl(jax.jit(f), jx)
        else:
            sf = seed(state(f))
            res, got = impl(sf, env.key(case["key"]), jx)
            res2, got2 = impl(sf, env.key(case["key"]), jx2)
            plain = impl(seed(f), env.key(case["key"]), jx)
    except ImplError as e:
        return [(f"raises[{cfg}]:{e.sig()}{K}", f"{e}")], {"chains": ch}
    if not np.allclose(np.asarray(res), np.asarray(plain), rtol=1e-6, atol=1e-6) or not np.allclose(np.asarray(res), ref_result(nodes, x), rtol=1e-5, atol=1e-5):
        fails.append((f"not_transparent[{cfg}]{K}", f"state(f)(x)[0] = {np.asarray(res)} but f(x) = {np.asarray(plain)} (reference {ref_result(nodes, x)})"))
    got = prune_empty(jax.tree_util.tree_map(np.asarray, got))
    for kind, msg in compare(got, want)[:3]:
        fails.append((f"collected_{kind}[{cfg}]{K}", msg + f"; collected structure {structure(got)}, expected {structure(want)}"))
    if not fails:
        got2 = prune_empty(jax.tree_util.tree_map(np.asarray, got2))
        for kind, msg in compare(got2, want2)[:2]:
            fails.append((f"second_call_collected_{kind}[{cfg}]{K}", f"second call of the same state(f) with x={x2}: " + msg))
    return fails, {"chains": ch}


def cases():
    from hypothesis import strategies as st

    co = st.sampled_from([0.0, 1.0, -1.0, 0.5, 2.0])
    expr = st.tuples(co, co, co, co, st.sampled_from([0.0, 0.25, -3.0, 10.0])).map(list)
    vname = st.sampled_from(["a", "b", "c"])
    nname = st.sampled_from(["n0", "n1", "n2"])

    def nodes(depth):
        leaf = st.one_of(
            st.tuples(st.just("save"), vname, expr).map(list),
            st.tuples(st.just("save"), vname, expr).map(list),
            st.tuples(st.just("tag"), vname, expr, expr).map(list),
            st.just(["sample"]),
        )
        if depth == 0:
            return st.lists(leaf, min_size=1, max_size=3)
        sub = nodes(depth - 1)
        node = st.one_of(
            leaf,
            st.tuples(st.just("ns"), nname, sub).map(list),
            # leaf-mode namespaces use their own name pool: using one name both as a leaf value and as a namespace is
            # outside the claim (the dictionary cannot hold both under one key; the implementation rejects it)
            st.tuples(st.just("nsleaf"), st.sampled_from(["l0", "l1"]), st.lists(expr, min_size=1, max_size=3)).map(list),
            st.tuples(st.just("scan"), st.integers(1, 3), sub, expr).map(list),
            st.tuples(st.just("vmap"), st.integers(2, 3), sub, st.sampled_from(["jax", "modular"])).map(list),
        )
        return st.lists(node, min_size=1, max_size=3)

    return st.fixed_dictionaries({"nodes": nodes(3), "x": st.sampled_from([0.5, -1.25, 2.0]), "config": st.sampled_from(["eager", "jit", "seed"]),
                                  "key": st.integers(0, 10**6)})


def has_name_clash(nodes):
    """A value name and a namespace name never clash by construction (disjoint pools)."""
    return False


def run_shard(ctx):
    P = plan(ctx)

    def one(case):
        env.reset()
        fails, info = classify(case)
        chains = info["chains"]
        nt = any(len(set(c.split("+"))) >= 2 for c in chains)
        ctx.case(case, nt, [f"C19.cfg_{case['config']}"] + [f"C19.save_under_{c}" for c in chains], sample={**case, "chains": chains})
        for b, w in fails:
            ctx.fail(b, w, case)

    drive(ctx, cases(), P["n_cases"], one, "main")


def replay(case):
    return classify(case)[0]
