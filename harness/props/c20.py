"""C20 - the exact state-space baselines are exact (brute-force enumeration / dense joint-Gaussian conditioning)."""
import itertools
import math

import numpy as np
from scipy import stats as ss

from harness import env, stats
from harness.engine import ImplError, drive, impl
from harness.plans import plan

ID = "C20"


# ----------------------------------------------------------------------------- HMM
def hmm_bruteforce(obs, pi, A, B):
    T, K = len(obs), len(pi)
    seqs = list(itertools.product(range(K), repeat=T))
    joint = np.zeros(len(seqs))
    for n, s in enumerate(seqs):
        p = pi[s[0]] * B[s[0], obs[0]]
        for t in range(1, T):
            p *= A[s[t - 1], s[t]] * B[s[t], obs[t]]
        joint[n] = p
    return seqs, joint


def hmm_filtering(obs, pi, A, B):
    """p(x_t | y_{1:t}) for every t by brute force on the prefix."""
    out = []
    for t in range(len(obs)):
        seqs, joint = hmm_bruteforce(obs[: t + 1], pi, A, B)
        m = np.zeros(len(pi))
        for s, p in zip(seqs, joint):
            m[s[-1]] += p
        out.append(m / m.sum())
    return np.array(out)


def classify_hmm(case, ctx=None, n1=4000):
    import jax
    import jax.numpy as jnp
    from genjax import seed
    from genjax.extras import state_space as S

    pi, A, B = (np.asarray(case[k], dtype=np.float64) for k in ("pi", "A", "B"))
    obs = np.asarray(case["obs"], dtype=np.int64)
    pi32, A32, B32 = (np.asarray(x, dtype=np.float32) for x in (pi, A, B))
    pi, A, B = pi32.astype(np.float64), A32.astype(np.float64), B32.astype(np.float64)
    T, K = len(obs), len(pi)
    sparse = bool(np.any(A == 0) or np.any(B == 0) or np.any(pi == 0))
    C = f"{'sparse' if sparse else 'dense'}:{'T1' if T == 1 else 'T>1'}"
    fails, info = [], {"model": "hmm", "K": K, "M": B.shape[1], "T": T, "sparse": sparse}
    seqs, joint = hmm_bruteforce(obs, pi, A, B)
    Z = joint.sum()
    if not Z > 0:
        return [], {**info, "skipped": "observation sequence has probability 0"}
    jo, jpi, jA, jB = jnp.asarray(obs.astype(np.int32)), jnp.asarray(pi32), jnp.asarray(A32), jnp.asarray(B32)
    try:
        alpha, lm = impl(S.forward_filter, jo, jpi, jA, jB)
    except ImplError as e:
        return [(f"hmm.forward_filter_raises:{e.sig()}:{C}", str(e))], info
    lm = float(lm)
    if not abs(lm - math.log(Z)) <= 2e-4 + 1e-5 * abs(math.log(Z)):
        fails.append((f"hmm.log_marginal:{C}", f"forward_filter log marginal {lm} != brute force {math.log(Z)}"))
    filt = hmm_filtering(obs, pi, A, B)
    got = np.exp(np.asarray(alpha, dtype=np.float64))
    if got.shape != filt.shape or not np.all(np.abs(got - filt) <= 2e-5 + 1e-4 * filt) or np.any(~np.isfinite(got)):
        t = int(np.argmax(np.max(np.abs(np.nan_to_num(got, nan=9) - filt), axis=1))) if got.shape == filt.shape else -1
        fails.append((f"hmm.filtering:{C}", f"p(x_t|y_1:t) at t={t}: forward_filter {got[t].tolist() if t >= 0 else got.shape} != brute force {filt[t].tolist() if t >= 0 else filt.shape}"))
    # joint of given sequences
    rng = np.random.default_rng(case["key"])
    for n in rng.choice(len(seqs), size=min(4, len(seqs)), replace=False):
        s = np.asarray(seqs[n], dtype=np.int32)
        if joint[n] <= 0:
            continue
        try:
            lp = float(impl(S.compute_sequence_log_prob, jnp.asarray(s), jo, jpi, jA, jB))
            if not abs(lp - math.log(joint[n])) <= 2e-4 + 1e-5 * abs(math.log(joint[n])):
                fails.append((f"hmm.sequence_log_prob:{C}", f"states {s.tolist()}: {lp} != {math.log(joint[n])}"))
                break
            # step model iterated over time defines the same joint density
            tot, prev = 0.0, jnp.asarray(0, dtype=jnp.int32)
            for t in range(T):
                d, ret = impl(S.discrete_hmm.assess, {"state": jnp.asarray(s[t]), "obs": jnp.asarray(obs[t].astype(np.int32))}, prev, jnp.asarray(t, dtype=jnp.int32), jpi, jA, jB)
                tot += float(d)
                prev = ret[0]
                if int(ret[0]) != int(s[t]) or int(ret[1]) != t + 1:
                    fails.append((f"hmm.step_model_retval:{C}", f"step {t}: returned state/time {int(ret[0])},{int(ret[1])}"))
            if not abs(tot - math.log(joint[n])) <= 2e-4 + 1e-5 * abs(math.log(joint[n])):
                fails.append((f"hmm.step_model_density:{C}", f"iterating discrete_hmm.assess over time gives {tot}, joint is {math.log(joint[n])} (states {s.tolist()})"))
                break
        except ImplError as e:
            fails.append((f"hmm.sequence_raises:{e.sig()}:{C}", str(e)))
            break
    # backward sampling: exact posterior over sequences
    if not fails and n1:
        post = joint / Z
        c = ctx if ctx is not None else type("C", (), {"stat_tests": 0, "stat_stage2": 0})()
        index = {s: i for i, s in enumerate(seqs)}
        bs = jax.jit(jax.vmap(lambda k: seed(S.backward_sample)(k, alpha, jA)))

        def pfun(n, stage):
            st = np.asarray(impl(bs, jax.random.split(env.key(case["key"], 5 + stage), n)))
            counts = np.zeros(len(seqs))
            for row in st:
                counts[index[tuple(int(x) for x in row)]] += 1
            return stats.chi2_p(counts, post)

        try:
            res = stats.two_stage(c, pfun, n1)
            if res:
                fails.append((f"hmm.backward_sample:{C}", f"sampled state sequences do not follow the exact posterior over {len(seqs)} sequences: {res}"))
        except ImplError as e:
            fails.append((f"hmm.backward_sample_raises:{e.sig()}:{C}", str(e)))
        except KeyError as e:
            fails.append((f"hmm.backward_sample_out_of_range:{C}", f"sampled state outside 0..K-1: {e}"))
    return fails, info


def hmm_scaled_forward(obs, pi, A, B):
    """float64 scaled forward recursion (independent of genjax): filtering distributions and log marginal for long sequences;
    itself compared with brute force on a prefix by classify_hmm_long."""
    a = pi * B[:, obs[0]]
    lm, out = 0.0, []
    for t in range(len(obs)):
        if t:
            a = (a @ A) * B[:, obs[t]]
        s = a.sum()
        if not s > 0:
            return None, -np.inf
        lm += math.log(s)
        a = a / s
        out.append(a.copy())
    return np.array(out), lm


def classify_hmm_long(case):
    """Long observation sequences / very unlikely symbols: the unnormalised forward messages leave the float32 range."""
    import jax.numpy as jnp
    from genjax.extras import state_space as S

    pi32, A32, B32 = (np.asarray(case[k], dtype=np.float32) for k in ("pi", "A", "B"))
    pi, A, B = pi32.astype(np.float64), A32.astype(np.float64), B32.astype(np.float64)
    obs = np.asarray(case["obs"], dtype=np.int64)
    T = len(obs)
    C = f"long:{'rare' if case.get('rare') else 'dense'}"
    fails, info = [], {"model": "hmm_long", "K": len(pi), "M": B.shape[1], "T": T, "sparse": False}
    filt, lm_ref = hmm_scaled_forward(obs, pi, A, B)
    # the reference agrees with brute force on a short prefix
    seqs, joint = hmm_bruteforce(obs[:5], pi, A, B)
    f5, lm5 = hmm_scaled_forward(obs[:5], pi, A, B)
    if abs(lm5 - math.log(joint.sum())) > 1e-9 * max(1.0, abs(lm5)):
        raise RuntimeError("C20 harness: scaled forward recursion disagrees with brute force")
    info["log_marginal"] = lm_ref
    try:
        alpha, lm = impl(S.forward_filter, jnp.asarray(obs.astype(np.int32)), jnp.asarray(pi32), jnp.asarray(A32), jnp.asarray(B32))
    except ImplError as e:
        return [(f"hmm.forward_filter_raises:{e.sig()}:{C}", str(e))], info
    lm = float(lm)
    if not abs(lm - lm_ref) <= 5e-3 + 3e-5 * abs(lm_ref):
        fails.append((f"hmm.log_marginal:{C}", f"T={T}: forward_filter log marginal {lm} != float64 scaled forward recursion {lm_ref}"))
    got = np.exp(np.asarray(alpha, dtype=np.float64))
    if got.shape != filt.shape or np.any(~np.isfinite(got)) or not np.all(np.abs(got - filt) <= 1e-4 + 2e-3 * filt):
        t = int(np.argmax(np.max(np.abs(np.nan_to_num(got, nan=9) - filt), axis=1))) if got.shape == filt.shape else -1
        fails.append((f"hmm.filtering:{C}", f"T={T}: p(x_t|y_1:t) at t={t}: forward_filter {got[t].tolist() if t >= 0 else got.shape} != reference {filt[t].tolist() if t >= 0 else filt.shape}"))
    return fails, info


# ----------------------------------------------------------------------------- linear Gaussian
def lg_joint(m0, P0, A, Q, Cm, R, T):
    ds, do = len(m0), Cm.shape[0]
    mx = [m0]
    Px = [P0]
    for t in range(1, T):
        mx.append(A @ mx[-1])
        Px.append(A @ Px[-1] @ A.T + Q)
    n = T * ds
    Sxx = np.zeros((n, n))
    for s in range(T):
        for t in range(s, T):
            blk = Px[s]
            M = np.eye(ds)
            for _ in range(t - s):
                M = A @ M
            c = M @ blk  # Cov(x_t, x_s)
            Sxx[t * ds:(t + 1) * ds, s * ds:(s + 1) * ds] = c
            Sxx[s * ds:(s + 1) * ds, t * ds:(t + 1) * ds] = c.T
    H = np.kron(np.eye(T), Cm)
    mean_x = np.concatenate(mx)
    mean_y = H @ mean_x
    Syy = H @ Sxx @ H.T + np.kron(np.eye(T), R)
    Sxy = Sxx @ H.T
    return mean_x, mean_y, Sxx, Syy, Sxy


def condition(mean_x, mean_y, Sxx, Syy, Sxy, y, xs, ys):
    """x[xs] | y[ys]"""
    Syy_ = Syy[np.ix_(ys, ys)]
    K = Sxy[np.ix_(xs, ys)] @ np.linalg.inv(Syy_)
    m = mean_x[xs] + K @ (y[ys] - mean_y[ys])
    P = Sxx[np.ix_(xs, xs)] - K @ Sxy[np.ix_(xs, ys)].T
    return m, P


def classify_lg(case):
    import jax.numpy as jnp
    from genjax.extras import state_space as S

    f32 = lambda x: np.asarray(x, dtype=np.float32)  # noqa: E731
    m0, P0, A, Q, Cm, R, Y = (np.asarray(case[k], dtype=np.float64) for k in ("m0", "P0", "A", "Q", "C", "R", "Y"))
    if case.get("units"):
        # the same model with the state components expressed in different units (z = D x): same observation law, posterior
        # moments transformed by D - "exact" must not depend on the scaling of the state
        D = np.diag(np.asarray(case["units"], dtype=np.float64)[: len(m0)])
        Di = np.linalg.inv(D)
        m0, P0, A, Q, Cm = D @ m0, D @ P0 @ D, D @ A @ Di, D @ Q @ D, Cm @ Di
    m0, P0, A, Q, Cm, R, Y = (f32(x) for x in (m0, P0, A, Q, Cm, R, Y))
    T, do = Y.shape
    ds = len(m0)
    cls = f"{'square' if ds == do else 'nonsquare'}:{'T1' if T == 1 else 'T>1'}" + (":mixed_units" if case.get("units") else "")
    fails, info = [], {"model": "lg", "d_state": ds, "d_obs": do, "T": T}
    d = [x.astype(np.float64) for x in (m0, P0, A, Q, Cm, R)]
    mean_x, mean_y, Sxx, Syy, Sxy = lg_joint(*d, T)
    y = Y.astype(np.float64).ravel()
    args = [jnp.asarray(x) for x in (Y, m0, P0, A, Q, Cm, R)]
    try:
        fm, fc, lm = impl(S.kalman_filter, *args)
        sm, sc = impl(S.kalman_smoother, *args)
    except ImplError as e:
        return [(f"lg.raises:{e.sig()}:{cls}", str(e))], info
    fm, fc, sm, sc, lm = (np.asarray(x, dtype=np.float64) for x in (fm, fc, sm, sc, lm))

    def near(a, b, scale, sd=None):
        """sd: posterior standard deviations of the components - errors are measured in those units (a component on a small
        scale is not allowed to hide behind a large one); without it, relative to the global scale as before"""
        if a.shape != b.shape:
            return False
        if sd is None:
            return bool(np.all(np.abs(a - b) <= 2e-3 * scale + 3e-3 * np.abs(b)))
        unit = sd if a.ndim == 1 else np.outer(sd, sd)
        return bool(np.all(np.abs(a - b) <= 5e-3 * unit + 2e-5 * np.abs(b)))

    ref_lm = float(ss.multivariate_normal.logpdf(y, mean_y, Syy, allow_singular=False))
    if not abs(float(lm) - ref_lm) <= 2e-3 + 2e-4 * abs(ref_lm) * 5:
        fails.append((f"lg.log_marginal:{cls}", f"kalman_filter log marginal {float(lm)} != dense Gaussian {ref_lm}"))
    scale_m = 1.0 + np.abs(mean_x).max() + np.abs(y).max()
    scale_c = 1.0 + np.abs(Sxx).max()
    for t in range(T):
        xs = list(range(t * ds, (t + 1) * ds))
        units = bool(case.get("units"))
        m, P = condition(mean_x, mean_y, Sxx, Syy, Sxy, y, xs, list(range((t + 1) * do)))
        sd = np.sqrt(np.diag(P)) if units else None
        if not near(fm[t], m, scale_m, sd):
            fails.append((f"lg.filter_mean:{cls}", f"t={t}: {fm[t].tolist()} != {m.tolist()}"))
            break
        if not near(fc[t], P, scale_c, sd):
            fails.append((f"lg.filter_cov:{cls}", f"t={t}: {fc[t].tolist()} != {P.tolist()}"))
            break
        m, P = condition(mean_x, mean_y, Sxx, Syy, Sxy, y, xs, list(range(T * do)))
        sd = np.sqrt(np.diag(P)) if units else None
        if not near(sm[t], m, scale_m, sd):
            fails.append((f"lg.smoother_mean:{cls}", f"t={t}: {sm[t].tolist()} != {m.tolist()} (posterior sd {np.sqrt(np.diag(P)).tolist()})"))
            break
        if not near(sc[t], P, scale_c, sd):
            fails.append((f"lg.smoother_cov:{cls}", f"t={t}: {sc[t].tolist()} != {P.tolist()}"))
            break
    # step model iterated == joint density of (x, y)
    rng = np.random.default_rng(case["key"])
    X = f32(rng.multivariate_normal(mean_x, Sxx).reshape(T, ds))
    full_mean = np.concatenate([mean_x, mean_y])
    full_cov = np.block([[Sxx, Sxy], [Sxy.T, Syy]])
    ref_joint = float(ss.multivariate_normal.logpdf(np.concatenate([X.astype(np.float64).ravel(), y]), full_mean, full_cov))
    try:
        tot, prev = 0.0, jnp.zeros(ds, dtype=jnp.float32)
        for t in range(T):
            dd, ret = impl(S.linear_gaussian.assess, {"state": jnp.asarray(X[t]), "obs": jnp.asarray(Y[t])}, prev, jnp.asarray(t, dtype=jnp.int32), *args[1:])
            tot += float(dd)
            prev = ret[0]
        if not abs(tot - ref_joint) <= 5e-3 + 1e-3 * abs(ref_joint):
            fails.append((f"lg.step_model_density:{cls}", f"iterating linear_gaussian.assess gives {tot}, dense joint {ref_joint}"))
    except ImplError as e:
        fails.append((f"lg.step_model_raises:{e.sig()}:{cls}", str(e)))
    return fails, info


def kalman_ref(Y, m0, P0, A, Q, C, R):
    """float64 Kalman filter + RTS smoother (independent of genjax; checked against dense conditioning on a prefix).
    Convention of the library: x_0 ~ N(m0, P0), x_t = A x_{t-1} + N(0, Q), y_t = C x_t + N(0, R)."""
    T = len(Y)
    fm, fc, pm, pc, lm = [], [], [], [], 0.0
    m, P = m0, P0
    for t in range(T):
        if t:
            m, P = A @ m, A @ P @ A.T + Q
        pm.append(m)
        pc.append(P)
        S = C @ P @ C.T + R
        v = Y[t] - C @ m
        lm += float(ss.multivariate_normal.logpdf(v, np.zeros(len(v)), S))
        K = P @ C.T @ np.linalg.inv(S)
        m, P = m + K @ v, P - K @ S @ K.T
        fm.append(m)
        fc.append(P)
    sm, sc = [None] * T, [None] * T
    sm[-1], sc[-1] = fm[-1], fc[-1]
    for t in range(T - 2, -1, -1):
        G = fc[t] @ A.T @ np.linalg.inv(pc[t + 1])
        sm[t] = fm[t] + G @ (sm[t + 1] - pm[t + 1])
        sc[t] = fc[t] + G @ (sc[t + 1] - pc[t + 1]) @ G.T
    return np.array(fm), np.array(fc), np.array(sm), np.array(sc), lm


def classify_lg_long(case):
    import jax.numpy as jnp
    from genjax.extras import state_space as S

    f32 = lambda x: np.asarray(x, dtype=np.float32)  # noqa: E731
    m0, P0, A, Q, Cm, R, Y = (f32(case[k]) for k in ("m0", "P0", "A", "Q", "C", "R", "Y"))
    T, do = Y.shape
    ds = len(m0)
    cls = "long"
    fails, info = [], {"model": "lg_long", "d_state": ds, "d_obs": do, "T": T}
    d = [x.astype(np.float64) for x in (m0, P0, A, Q, Cm, R)]
    Y64 = Y.astype(np.float64)
    rfm, rfc, rsm, rsc, rlm = kalman_ref(Y64, *d)
    # the reference agrees with dense conditioning of the joint Gaussian on a short prefix
    Tp = 4
    mean_x, mean_y, Sxx, Syy, Sxy = lg_joint(*d, Tp)
    pf, _, _, _, plm = kalman_ref(Y64[:Tp], *d)
    mm, _ = condition(mean_x, mean_y, Sxx, Syy, Sxy, Y64[:Tp].ravel(), list(range((Tp - 1) * ds, Tp * ds)), list(range(Tp * do)))
    if not np.allclose(pf[-1], mm, atol=1e-8) or abs(plm - float(ss.multivariate_normal.logpdf(Y64[:Tp].ravel(), mean_y, Syy))) > 1e-8:
        raise RuntimeError("C20 harness: reference Kalman recursion disagrees with dense conditioning")
    args = [jnp.asarray(x) for x in (Y, m0, P0, A, Q, Cm, R)]
    try:
        fm, fc, lm = impl(S.kalman_filter, *args)
        sm, sc = impl(S.kalman_smoother, *args)
    except ImplError as e:
        return [(f"lg.raises:{e.sig()}:{cls}", str(e))], info
    fm, fc, sm, sc, lm = (np.asarray(x, dtype=np.float64) for x in (fm, fc, sm, sc, lm))
    sm_scale = 1.0 + np.abs(rfm).max() + np.abs(Y64).max()
    sc_scale = 1.0 + np.abs(rfc).max()
    for name, got, want, scale in (("filter_mean", fm, rfm, sm_scale), ("filter_cov", fc, rfc, sc_scale), ("smoother_mean", sm, rsm, sm_scale), ("smoother_cov", sc, rsc, sc_scale)):
        if got.shape != want.shape or not np.all(np.isfinite(got)) or not np.all(np.abs(got - want) <= 4e-3 * scale + 4e-3 * np.abs(want)):
            t = int(np.argmax(np.max(np.abs(np.nan_to_num(got, nan=1e9) - want).reshape(T, -1), axis=1))) if got.shape == want.shape else -1
            fails.append((f"lg.{name}:{cls}", f"T={T}: {name} at t={t}: {got[t].tolist() if t >= 0 else got.shape} != float64 Kalman recursion {want[t].tolist() if t >= 0 else want.shape}"))
            break
    if not abs(float(lm) - rlm) <= 5e-3 * T ** 0.5 + 3e-4 * abs(rlm):
        fails.append((f"lg.log_marginal:{cls}", f"T={T}: kalman_filter log marginal {float(lm)} != float64 recursion {rlm}"))
    return fails, info


# ----------------------------------------------------------------------------- strategies
def cases():
    from hypothesis import strategies as st

    w = st.floats(0.0625, 1.0, allow_nan=False, width=32)

    def stoch_row(draw, n, sparse):
        v = [draw(w) for _ in range(n)]
        if sparse and n > 1:
            for i in range(n):
                if draw(st.sampled_from([True, False, False])):
                    v[i] = 0.0
            if sum(v) == 0:
                v[draw(st.integers(0, n - 1))] = 1.0
        s = sum(v)
        return [x / s for x in v]

    @st.composite
    def hmm(draw):
        K, M, T = draw(st.integers(1, 4)), draw(st.integers(1, 4)), draw(st.integers(1, 6))
        sparse = draw(st.sampled_from([True, False, False]))
        pi = stoch_row(draw, K, sparse)
        A = [stoch_row(draw, K, sparse) for _ in range(K)]
        B = [stoch_row(draw, M, sparse) for _ in range(K)]
        key = draw(st.integers(0, 2**30))
        rng = np.random.default_rng(key)
        s = rng.choice(K, p=np.asarray(pi) / np.sum(pi))
        obs = []
        for t in range(T):
            if t:
                s = rng.choice(K, p=np.asarray(A[s]) / np.sum(A[s]))
            obs.append(int(rng.choice(M, p=np.asarray(B[s]) / np.sum(B[s]))))
        return {"kind": "hmm", "pi": pi, "A": A, "B": B, "obs": obs, "key": key}

    @st.composite
    def hmm_long(draw):
        K, M = draw(st.integers(2, 4)), draw(st.integers(2, 4))
        rare = draw(st.booleans())
        T = draw(st.sampled_from([12, 30])) if rare else draw(st.sampled_from([80, 200, 500]))
        pi = stoch_row(draw, K, False)
        A = [stoch_row(draw, K, False) for _ in range(K)]
        B = [stoch_row(draw, M, False) for _ in range(K)]
        key = draw(st.integers(0, 2**30))
        rng = np.random.default_rng(key)
        if rare:  # one symbol is emitted with probability ~1e-9 by every state, and observed repeatedly
            for row in B:
                row[0] = 1e-9 * (1 + rng.random())
                s = sum(row[1:])
                row[1:] = [x * (1 - row[0]) / s for x in row[1:]]
            obs = [0 if rng.random() < 0.5 else int(rng.integers(1, M)) for _ in range(T)]
        else:
            obs = [int(x) for x in rng.integers(0, M, size=T)]
        return {"kind": "hmm_long", "rare": rare, "pi": pi, "A": A, "B": B, "obs": obs, "key": key}

    e = st.floats(-1.0, 1.0, allow_nan=False, width=32).map(lambda x: round(x, 2))

    def spd(draw, d):
        Bm = np.array([[draw(e) for _ in range(d)] for _ in range(d)])
        return (Bm @ Bm.T + draw(st.sampled_from([0.1, 0.5, 1.0])) * np.eye(d)).round(4).tolist()

    @st.composite
    def lg(draw):
        ds, T = draw(st.integers(1, 3)), draw(st.integers(1, 6))
        do = draw(st.integers(1, 3))
        A = [[draw(e) for _ in range(ds)] for _ in range(ds)]
        Cm = [[draw(e) for _ in range(ds)] for _ in range(do)]
        key = draw(st.integers(0, 2**30))
        case = {"kind": "lg", "m0": [draw(e) for _ in range(ds)], "P0": spd(draw, ds), "A": A, "Q": spd(draw, ds), "C": Cm, "R": spd(draw, do), "key": key}
        d = [np.asarray(case[k], dtype=np.float64) for k in ("m0", "P0", "A", "Q", "C", "R")]
        _, mean_y, _, Syy, _ = lg_joint(*d, T)
        Y = np.random.default_rng(key).multivariate_normal(mean_y, Syy).reshape(T, do)
        case["Y"] = Y.round(3).tolist()
        if ds >= 2 and draw(st.integers(0, 2)) == 0:
            case["units"] = draw(st.sampled_from([[30.0, 0.03, 1.0], [0.02, 20.0, 1.0], [1.0, 50.0, 0.05]]))
        return case

    @st.composite
    def lg_long(draw):
        ds, do, T = draw(st.integers(1, 3)), draw(st.integers(1, 3)), draw(st.sampled_from([40, 120]))
        # a contraction, so that the state does not explode over a long horizon
        A = (0.9 * np.linalg.qr(np.array([[draw(e) for _ in range(ds)] for _ in range(ds)]) + np.eye(ds))[0]).round(3).tolist()
        Cm = [[draw(e) for _ in range(ds)] for _ in range(do)]
        key = draw(st.integers(0, 2**30))
        case = {"kind": "lg_long", "m0": [draw(e) for _ in range(ds)], "P0": spd(draw, ds), "A": A, "Q": spd(draw, ds), "C": Cm, "R": spd(draw, do), "key": key}
        rng = np.random.default_rng(key)
        m0, P0, A_, Q, C_, R = (np.asarray(case[k], dtype=np.float64) for k in ("m0", "P0", "A", "Q", "C", "R"))
        x, Y = rng.multivariate_normal(m0, P0), []
        for t in range(T):
            if t:
                x = A_ @ x + rng.multivariate_normal(np.zeros(ds), Q)
            Y.append((C_ @ x + rng.multivariate_normal(np.zeros(do), R)).round(3).tolist())
        case["Y"] = Y
        return case

    return st.one_of(hmm(), hmm(), lg(), lg(), hmm_long(), lg_long())


def run_shard(ctx):
    P = plan(ctx)
    cnt = [0]

    def one(case):
        env.reset()
        cnt[0] += 1
        if case["kind"] == "hmm":
            fails, info = classify_hmm(case, ctx, P["n1"] if cnt[0] % P["stat_every"] == 0 else 0)
            nt = info["T"] >= 2 and (info["sparse"] or info["K"] != info["M"])
            cls = ["C20.hmm", f"C20.hmm_{'sparse' if info['sparse'] else 'dense'}", f"C20.hmm_T{'1' if info['T'] == 1 else '>1'}"]
        elif case["kind"] == "lg_long":
            fails, info = classify_lg_long(case)
            nt = True
            cls = ["C20.lg_long"]
        elif case["kind"] == "hmm_long":
            fails, info = classify_hmm_long(case)
            nt = True
            cls = ["C20.hmm_long", f"C20.hmm_long_{'rare_symbol' if case.get('rare') else 'T>=80'}"]
        else:
            fails, info = classify_lg(case)
            nt = info["T"] >= 2 and info["d_state"] != info["d_obs"]
            cls = ["C20.lg", f"C20.lg_{'square' if info['d_state'] == info['d_obs'] else 'nonsquare'}", f"C20.lg_T{'1' if info['T'] == 1 else '>1'}"] + (["C20.lg_mixed_units"] if case.get("units") else [])
        ctx.case(case, nt, cls, sample={**case, "info": info})
        for b, w in fails:
            ctx.fail(b, w, case)

    drive(ctx, cases(), P["n_cases"], one, "main")


def replay(case):
    if case["kind"] == "hmm_long":
        return classify_hmm_long(case)[0]
    if case["kind"] == "lg_long":
        return classify_lg_long(case)[0]
    return (classify_hmm(case, None, 4000) if case["kind"] == "hmm" else classify_lg(case))[0]
