"""C08 - modular_vmap and Vmap are lane-wise maps, for densities and for sampling."""
import numpy as np
from scipy import stats as ss

from harness import env, gfi, stats
from harness.engine import ImplError, drive, impl
from harness.plans import plan

ID = "C08"
LANE_SHAPES = [(), (), (2,), (3,), (2, 3)]


def body(prog, args, mode="run"):
    """The mapped function.  args: tuple of per-lane arrays (leaves of the argument pytree, in order).
    mode 'run': real sampling;  mode 'probe': sample statements return their parameters instead of drawing."""
    import jax
    import jax.numpy as jnp
    from genjax import modular_vmap, normal

    vals = list(args)
    out = {}
    probes = {}

    def pick(i):
        return vals[i % len(vals)]

    def bc(a, b):
        try:
            np.broadcast_shapes(a.shape, b.shape)
            return b
        except ValueError:
            return jnp.sum(b)

    for n, st in enumerate(prog):
        k = st[0]
        if k == "det":
            a = pick(st[2])
            b = bc(a, pick(st[3]))
            v = {"add": a + b, "mul": a * jnp.tanh(b), "sin": jnp.sin(a) + 0.0 * b, "sumlast": (jnp.sum(a, axis=-1) if a.ndim else a) + 0.0 * jnp.sum(b),
                 "outer": (a.reshape(-1)[:, None] * jnp.atleast_1d(b).reshape(-1)[None, :])}[st[1]]
        elif k == "logpdf":
            x = pick(st[1])
            loc = bc(x, pick(st[2]))
            sc = jax.nn.softplus(bc(x + loc, pick(st[3]))) + 0.5  # mutually broadcastable with value *and* location
            v = normal.logpdf(x, loc, sc)
        elif k == "sample":
            loc = pick(st[1])
            sc = jax.nn.softplus(bc(loc, pick(st[2]))) + 0.5
            shp = tuple(st[3])
            if mode == "probe":
                full = jnp.broadcast_shapes(loc.shape, sc.shape)
                probes[f"v{n}"] = (jnp.broadcast_to(loc, full), jnp.broadcast_to(sc, full), shp)
                v = jnp.broadcast_to(loc + 0.0 * sc, shp + full)
            else:
                v = normal.sample(loc, sc, sample_shape=shp) if shp else normal.sample(loc, sc)
        elif k == "inner_vmap":
            a = pick(st[1])
            if a.ndim == 0:
                a = jnp.stack([a, a + 1.0])
            if mode == "probe":
                probes[f"v{n}"] = (a, jnp.ones_like(a), ())
                v = a + normal.logpdf(a, 0.0, 1.0)
            else:
                v = modular_vmap(lambda r: normal.sample(r, 1.0) * 0.0 + normal.logpdf(r, 0.0, 1.0) + r, in_axes=0)(a)
                if st[2]:
                    v = modular_vmap(lambda r: normal.sample(r, 1.0), in_axes=0)(a)
        elif k == "scan":
            a = jnp.atleast_1d(pick(st[1]))
            variant = st[2] if len(st) > 2 else "fwd"
            if variant == "grad":  # differentiate through a scan inside the mapped function (its backward pass is a reverse scan)
                v = jax.grad(lambda z: jnp.sum(jax.lax.scan(lambda c, x: (c * 0.5 + jnp.sum(jnp.sin(x)), c * jnp.sum(x)), jnp.ones(()), z)[1]))(a)
            else:
                v = jax.lax.scan(lambda c, x: (c * 0.9 + jnp.sum(x), c + jnp.sum(x) * 2.0), jnp.zeros(()), a, reverse=(variant == "rev"))[1]
        elif k == "cond":
            a = pick(st[1])
            v = jax.lax.cond(jnp.sum(a) > st[2], lambda z: jnp.sin(z), lambda z: z * 2.0 + 1.0, a)
        else:
            raise ValueError(st)
        vals.append(v)
        out[f"v{n}"] = v
    return (out, probes) if mode == "probe" else out


def has_sampling(prog):
    return any(st[0] == "sample" or (st[0] == "inner_vmap" and st[2]) for st in prog)


def tainted(prog, n_args):
    """indices of statements whose value depends on a random draw"""
    t = set()
    for n, st in enumerate(prog):
        refs = [x for x in st[1:] if isinstance(x, int)] if st[0] != "det" else [st[2], st[3]]
        if st[0] == "sample" or (st[0] == "inner_vmap" and st[2]):
            t.add(n)
    # conservative propagation: operand indices are taken modulo the current number of values
    changed = True
    while changed:
        changed = False
        for n, st in enumerate(prog):
            if n in t:
                continue
            nv = n_args + n
            ops = {"det": [st[2], st[3]] if st[0] == "det" else [], "logpdf": list(st[1:4]) if st[0] == "logpdf" else [],
                   "sample": [], "inner_vmap": [st[1]] if st[0] == "inner_vmap" else [], "scan": [st[1]] if st[0] == "scan" else [],
                   "cond": [st[1]] if st[0] == "cond" else []}[st[0]]
            for o in ops:
                j = o % nv
                if j >= n_args and (j - n_args) in t:
                    t.add(n)
                    changed = True
    return t


def make_args(case, rng):
    """-> (batched leaves, per-leaf axis (None|int>=0), B).  The argument pytree is a tuple, optionally with a dict."""
    B = case["B"]
    leaves, axes = [], []
    for shp, ax in zip(case["lane_shapes"], case["axes"]):
        shp = tuple(shp)
        if ax is None:
            leaves.append(rng.uniform(-1.5, 1.5, size=shp).astype(np.float32))
            axes.append(None)
        else:
            pos = ax if ax >= 0 else len(shp) + 1 + ax
            pos = min(pos, len(shp))
            full = shp[:pos] + (B,) + shp[pos:]
            leaves.append(rng.uniform(-1.5, 1.5, size=full).astype(np.float32))
            axes.append(ax if ax < 0 else pos)
    return leaves, axes, B


def pack(case, leaves, axes):
    """argument pytree + in_axes spec according to case['packing']"""
    import jax.numpy as jnp

    jl = [jnp.asarray(x) for x in leaves]
    if case["packing"] == "tuple" or len(jl) < 2:
        return tuple(jl), tuple(axes), (lambda *a: tuple(a))
    if case["packing"] == "dict_last":
        return (tuple(jl[:-2]) + ({"p": jl[-2], "q": jl[-1]},)), (tuple(axes[:-2]) + ({"p": axes[-2], "q": axes[-1]},)), None
    if case["packing"] == "int_prefix" and len(set(axes)) == 1 and axes[0] is not None:
        return tuple(jl), axes[0], None
    return tuple(jl), tuple(axes), None


def classify(case, ctx=None, n1=1500):
    import jax
    import jax.numpy as jnp
    from genjax import modular_vmap, seed

    rng = np.random.default_rng(case["key"])
    leaves, axes, B = make_args(case, rng)
    args, in_axes, _ = pack(case, leaves, axes)
    prog = case["prog"]
    n_args = len(leaves)
    samp = has_sampling(prog)
    T = tainted(prog, n_args)
    spec = "axes[" + ",".join("N" if a is None else str(a) for a in case["axes"]) + "]"
    feat = sorted({st[0] for st in prog} | ({"sample_shape"} if any(st[0] == "sample" and st[3] for st in prog) else set())
                  | {f"scan_{st[2]}" for st in prog if st[0] == "scan" and len(st) > 2 and st[2] != "fwd"})
    K = "|" + "+".join(sorted(set(feat) | ({"axis_nonzero"} if any(a not in (None, 0) for a in case["axes"]) else set()) | ({"axis_none"} if None in case["axes"] else set())))
    fails, info = [], {"in_axes": spec, "features": feat, "sampling": samp}

    def f(*a):
        return body(prog, jax.tree_util.tree_leaves(a))

    def lane_args(i):
        return [np.take(x, i, axis=ax) if ax is not None else x for x, ax in zip(leaves, axes)]

    axis_size = B if (case["give_axis_size"] or all(a is None for a in axes)) else None
    mv = modular_vmap(f, in_axes=in_axes, axis_size=axis_size)
    # reference: apply f to every slice and stack (deterministic statements only)
    probe = [body(prog, [jnp.asarray(x) for x in lane_args(i)], mode="probe") for i in range(B)]
    want = {k: np.stack([np.asarray(p[0][k]) for p in probe]) for k in probe[0][0]}
    try:
        got = impl(seed(mv), env.key(case["key"], 1), *args) if samp else impl(mv, *args)
        got = {k: np.asarray(v) for k, v in got.items()}
    except ImplError as e:
        return [(f"raises:{e.sig()}{K}", f"in_axes {spec}, lane shapes {case['lane_shapes']}, B={B}: {e}")], info
    for n, st in enumerate(prog):
        k = f"v{n}"
        if got[k].shape != want[k].shape:
            fails.append((f"layout{K}", f"statement {n} {st}: result shape {got[k].shape}, applying f to each of the {B} slices and stacking gives {want[k].shape} (in_axes {spec})"))
            break
        if n not in T and not np.allclose(got[k], want[k], rtol=2e-5, atol=2e-5):
            fails.append((f"values{K}", f"statement {n} {st}: values differ from slice-and-stack (max abs diff {np.max(np.abs(got[k] - want[k])):.3g}; in_axes {spec})"))
            break
    if not samp and not fails:
        try:
            jv = jax.vmap(f, in_axes=in_axes, axis_size=axis_size)(*args)
            for k in jv:
                if np.asarray(jv[k]).shape != got[k].shape or not np.allclose(np.asarray(jv[k]), got[k], rtol=2e-5, atol=2e-5):
                    fails.append((f"differs_from_jax_vmap{K}", f"{k}: modular_vmap {got[k].shape} vs jax.vmap {np.asarray(jv[k]).shape}"))
                    break
        except Exception as e:  # noqa: BLE001
            info["jax_vmap_error"] = f"{type(e).__name__}"
    # sampling sites: lanes distinct, per-lane law, independence across lanes
    if samp and not fails:
        sites = [n for n, st in enumerate(prog) if st[0] == "sample" or (st[0] == "inner_vmap" and st[2])]
        runs = [got] + [{k: np.asarray(v) for k, v in impl(seed(mv), env.key(case["key"], 2 + j), *args).items()} for j in range(3)]
        for n in sites:
            k = f"v{n}"
            same = [(i, j) for i in range(B) for j in range(i + 1, B) if all(np.array_equal(r[k][i], r[k][j]) for r in runs)]
            if same and B > 1:
                fails.append((f"lanes_share_one_draw{K}", f"statement {n} {prog[n]}: lanes {same[0]} return identical draws under each of 4 keys (one draw broadcast to the lanes)"))
        clean = [n for n in sites if not any(_param_tainted(prog, n, T, n_args))]
        if not fails and clean and n1:
            c = ctx if ctx is not None else type("C", (), {"stat_tests": 0, "stat_stage2": 0})()
            bs = jax.jit(jax.vmap(lambda kk: {f"v{n}": seed(mv)(kk, *args)[f"v{n}"] for n in clean}))
            cache = {}

            def batch(nn, stage):
                if stage not in cache:
                    cache[stage] = {k: np.asarray(v, dtype=np.float64) for k, v in impl(bs, jax.random.split(env.key(case["key"], 30 + stage), nn)).items()}
                return cache[stage]

            for n in clean:
                k = f"v{n}"
                locs = np.stack([np.asarray(p[1][k][0], dtype=np.float64) for p in probe])
                scs = np.stack([np.asarray(p[1][k][1], dtype=np.float64) for p in probe])
                shp = tuple(probe[0][1][k][2])

                def pit(nn, stage, k=k, locs=locs, scs=scs, shp=shp):
                    x = batch(nn, stage)[k]  # [nn, B, *shp, *param]
                    lo = locs.reshape((1, B) + (1,) * len(shp) + locs.shape[1:])
                    sc = scs.reshape((1, B) + (1,) * len(shp) + scs.shape[1:])
                    return ss.norm.cdf((x - lo) / sc)

                def pfun(nn, stage):
                    u = pit(nn, stage).reshape(nn, -1)
                    ps = [stats.ks_uniform_p(u[:, j]) for j in range(u.shape[1])]
                    return min(1.0, min(ps) * len(ps)), {"site": k, "cols": u.shape[1]}

                res = stats.two_stage(c, pfun, n1)
                if res:
                    fails.append((f"lane_law{K}", f"statement {n} {prog[n]}: lane draws do not follow that lane's parameters (PIT with per-lane loc/scale not uniform): {res}"))
                    break

                def pfun2(nn, stage):
                    u = pit(nn, stage).reshape(nn, -1)
                    if u.shape[1] < 2:
                        return 1.0, {}
                    z = ss.norm.ppf(np.clip(u, 1e-7, 1 - 1e-7))
                    R = np.corrcoef(z, rowvar=False)
                    iu = np.triu_indices(u.shape[1], 1)
                    r = R[iu]
                    j = int(np.nanargmax(np.abs(r)))
                    return min(1.0, stats.fisher_z_p(float(r[j]), nn) * len(r)), {"site": k, "max_abs_corr": float(abs(r[j])), "pairs": len(r)}

                res = stats.two_stage(c, pfun2, n1)
                if res:
                    fails.append((f"lanes_dependent{K}", f"statement {n}: draws of different lanes / coordinates are correlated: {res}"))
                    break
    return fails, info


def _param_tainted(prog, n, T, n_args):
    st = prog[n]
    ops = [st[1], st[2]] if st[0] == "sample" else [st[1]]
    nv = n_args + n
    return [(o % nv) >= n_args and ((o % nv) - n_args) in T for o in ops]


def cases():
    from hypothesis import strategies as st

    i = st.integers(0, 6)
    stmt = st.one_of(
        st.tuples(st.just("det"), st.sampled_from(["add", "mul", "sin", "sumlast", "outer"]), i, i).map(list),
        st.tuples(st.just("logpdf"), i, i, i).map(list),
        st.tuples(st.just("sample"), i, i, st.sampled_from([[], [], [2], [3], [2, 2]])).map(list),
        st.tuples(st.just("sample"), i, i, st.just([])).map(list),
        st.tuples(st.just("inner_vmap"), i, st.booleans()).map(list),
        st.tuples(st.just("scan"), i, st.sampled_from(["fwd", "rev", "rev", "grad"])).map(list),
        st.tuples(st.just("cond"), i, st.sampled_from([-0.5, 0.0, 0.5])).map(list),
    )

    @st.composite
    def _c(draw):
        n = draw(st.integers(1, 3))
        shapes = [list(draw(st.sampled_from(LANE_SHAPES))) for _ in range(n)]
        axes = [draw(st.sampled_from([0, 0, 0, 1, -1, None])) for _ in range(n)]
        if all(a is None for a in axes) and draw(st.booleans()):
            axes[0] = 0
        B = draw(st.sampled_from([4, 5, 4, 2, 3]))  # mostly different from every lane dimension (2, 3), sometimes equal
        return {"prog": draw(st.lists(stmt, min_size=1, max_size=5)), "lane_shapes": shapes, "axes": axes, "B": B,
                "packing": draw(st.sampled_from(["tuple", "tuple", "dict_last", "int_prefix"])), "give_axis_size": draw(st.booleans()), "key": draw(st.integers(0, 2**30))}

    return _c()


def one_case(ctx, case):
    P = plan(ctx)
    env.reset()
    fails, info = classify(case, ctx, P["n1"])
    axes = case["axes"]
    ranks = {len(s) for s in case["lane_shapes"]}
    nt = any(a != 0 for a in axes) or "inner_vmap" in info["features"] or len(ranks) > 1 or "sample_shape" in info["features"]
    cls = [f"C08.feat_{f}" for f in info["features"]] + [f"C08.axis_{'none' if a is None else ('0' if a == 0 else 'other')}" for a in set(axes)] + \
          [f"C08.sampling_{info['sampling']}", f"C08.packing_{case['packing']}", f"C08.axis_size_{'given' if case['give_axis_size'] else 'inferred'}"] + \
          (["C08.rank_mismatched_params"] if len(ranks) > 1 else []) + (["C08.B_equals_a_lane_dim"] if case["B"] in (2, 3) else [])
    ctx.case(case, nt, cls, sample={**case, "info": info})
    for b, w in fails:
        ctx.fail(b, w, case)


def run_shard(ctx):
    P = plan(ctx)
    drive(ctx, cases(), P["n_cases"], lambda c: one_case(ctx, c), "main")
    part_vmap_combinator(ctx, P)


# ---------------------------------------------------------------------------------------------------------------
# Vmap combinator / repeat at top level: lane i of the vectorized trace is a coherent trace of the callee on lane i's args
def part_vmap_combinator(ctx, P):
    from hypothesis import strategies as st
    from harness import modelir

    def strat(full=False):
        @st.composite
        def _c(draw):
            if full:  # callee programs with every combinator (Scan, Vmap, directly nested combinators) under the outer Vmap
                p = draw(modelir.programs(discrete=False, kwargs=False, force=draw(st.sampled_from(["scan", "vmap", "nest", "cond"]))))
            else:
                p = draw(modelir.programs(discrete=False, combinators=("call", "vdist", "cond"), kwargs=False))
            npar = p["prog"]["fns"]["main"]["np"]
            axes = [draw(st.sampled_from([0, 0, None])) for _ in range(npar)]
            return {"kind": "vmapgf", **p, "in_axes": axes, "n": draw(st.integers(2, 3)), "key": draw(st.integers(0, 2**30)),
                    "lane_args": [[round(draw(modelir.fconst), 2) for _ in range(3)] for _ in range(npar)]}

        return _c()

    drive(ctx, strat(), P["n_vmapgf"], lambda c: one_vmapgf(ctx, c), "vmapgf")
    drive(ctx, strat(True), P.get("n_vmapgf_full", max(2, P["n_vmapgf"] // 2)), lambda c: one_vmapgf(ctx, c), "vmapgf_full")


def classify_vmapgf(case):
    import jax
    import jax.numpy as jnp
    from genjax import seed
    from harness import modelir, refmodel

    prog, axes, n = case["prog"], case["in_axes"], case["n"]
    ref = refmodel.Ref(prog)
    gf = impl(modelir.build, prog)
    lane_vals = [[float(np.float32(v)) for v in la[:n]] for la in case["lane_args"]]
    jargs = [jnp.asarray(np.asarray(la, dtype=np.float32)) if ax == 0 else jnp.asarray(np.float32(la[0])) for la, ax in zip(lane_vals, axes)]
    all_none = all(a is None for a in axes)
    vg = gf.repeat(n) if (all_none and len(axes) == 0) else gf.vmap(in_axes=tuple(axes), axis_size=n if all_none else None)
    F = "|" + ("repeat" if all_none else "vmap") + ("+axis_none" if (None in axes and not all_none) else "")
    fails = []

    def lane_rargs(i):
        return [np.float64(np.float32(la[i] if ax == 0 else la[0])) for la, ax in zip(lane_vals, axes)]

    def check_trace(tr, tag, weight=None, wref=None):
        out = []
        try:
            ch = gfi.to_np(impl(tr.get_choices))
            total = float(np.asarray(impl(tr.get_score)))
            rets = np.asarray(impl(tr.get_retval))
        except ImplError as e:
            return [(f"{tag}_accessor_raises:{e.sig()}{F}", str(e))]
        tot, mag = 0.0, 0.0
        for i in range(n):
            chi = jax.tree_util.tree_map(lambda x: np.asarray(x)[i], ch)
            try:
                r = ref.score(lane_rargs(i), {}, chi)
            except Exception as e:  # noqa: BLE001
                return [(f"{tag}_lane_choices_shape{F}", f"lane {i}: reference cannot read lane choices: {e}")]
            tot += r["logp"]
            mag += r["mag"]
            if rets.shape[0] != n or not gfi.retclose(rets[i], r["retval"]):
                out.append((f"{tag}_lane_retval{F}", f"lane {i}: retval {rets[i] if rets.shape[0] == n else rets.shape} != callee's return value on lane {i}'s arguments {r['retval']}"))
                break
        if not out and not gfi.close(total, -tot, mag):
            out.append((f"{tag}_score_not_sum_of_lanes{F}", f"score {total} != -sum over lanes of the callee's log density {-tot}"))
        return out

    try:
        tr = impl(seed(vg.simulate), env.key(case["key"], 0), *jargs)
        fails += check_trace(tr, "simulate")
        if not fails:
            ch = tr.get_choices()
            lp, rv = impl(vg.assess, ch, *jargs)
            if not gfi.close(float(np.asarray(lp)), -float(np.asarray(tr.get_score())), 50.0):
                fails.append((f"assess_vs_score{F}", f"assess {float(np.asarray(lp))} != -score {-float(np.asarray(tr.get_score()))}"))
            tr2, w = impl(seed(vg.generate), env.key(case["key"], 1), ch, *jargs)
            fails += check_trace(tr2, "generate")
            if not gfi.close(float(np.asarray(w)), float(np.asarray(lp)), 50.0):
                fails.append((f"generate_weight_not_sum{F}", f"fully constrained generate weight {float(np.asarray(w))} != assess {float(np.asarray(lp))}"))
            tr3, w3, _ = impl(vg.update, tr, None, *jargs)
            fails += check_trace(tr3, "update")
            if not gfi.close(float(np.asarray(w3)), 0.0, 50.0):
                fails.append((f"update_weight{F}", f"update with unchanged args and no constraints has weight {float(np.asarray(w3))}"))
            from genjax import sel

            tr4, w4, _ = impl(seed(vg.regenerate), env.key(case["key"], 2), tr, sel(()), *jargs)
            fails += check_trace(tr4, "regenerate")
            # the weight clause of regenerate is claimed for moves that do not switch a Cond (C04): compare the predicate traces
            from harness.props.c03 import preds_of

            ch_old, ch_new = gfi.to_np(ch), gfi.to_np(tr4.get_choices())
            switched = False
            for i in range(n):
                lo = jax.tree_util.tree_map(lambda x: np.asarray(x)[i], ch_old)
                ln = jax.tree_util.tree_map(lambda x: np.asarray(x)[i], ch_new)
                if preds_of(ref, lane_rargs(i), {}, lo) != preds_of(ref, lane_rargs(i), {}, ln):
                    switched = True
            if not switched and not gfi.close(float(np.asarray(w4)), 0.0, 50.0):
                fails.append((f"regenerate_weight{F}", f"regenerate of everything has weight {float(np.asarray(w4))}"))
            f4 = refmodel.flat_leaves(gfi.to_np(tr4.get_choices()))
            f1 = refmodel.flat_leaves(gfi.to_np(ch))
            for p_, v in f4.items():
                v1 = np.asarray(f1[p_])
                if v.dtype.kind == "f" and v.shape[0] == n and n > 1:
                    for i in range(n):
                        for j in range(i + 1, n):
                            if np.array_equal(v[i], v[j]) and np.array_equal(v1[i], v1[j]):
                                fails.append((f"lanes_share_one_draw{F}", f"{'/'.join(p_)}: lanes {i},{j} identical in two independent draws"))
    except ImplError as e:
        fails.append((f"vmapgf_raises:{e.sig()}{F}", str(e)))
    return fails, {"in_axes": axes}


def one_vmapgf(ctx, case):
    env.reset()
    fails, info = classify_vmapgf(case)
    from harness import modelir as _m
    fs = _m.features(case["prog"])
    ctx.case(case, True, ["C08.vmap_combinator"] + (["C08.vmap_combinator_axis_none"] if None in case["in_axes"] else []) + [f"C08.vmap_combinator_over_{f}" for f in sorted(fs & {"scan", "vmap", "nest", "cond"})], sample={k: case[k] for k in ("prog", "in_axes", "n", "lane_args")})
    for b, w in fails:
        ctx.fail(b, w, case)


def replay(case):
    if case.get("kind") == "vmapgf":
        return classify_vmapgf(case)[0]
    return classify(case, None, 1500)[0]
