"""C16 - selections are a Boolean algebra on addresses; filter/merge partition choices.

A  exhaustive: expressions (atoms closed under | ^ ~ to connective depth 2) x paths (len 1..3 over abc):
   implementation's decision (thread match down the path, then `() in rest` - exactly what regenerate does)
   == reference semantics (harness/selref.py).
B  Fn.filter / merge on generated nested choice-map shapes: disjoint, exhaustive, first part = selected leaves.
C  agreement on generated programs (real traces: Vmap-, Scan- and Cond-produced leaves): filter == what
   seed(regenerate) resamples == what mala / hmc move.
"""
import itertools

import numpy as np

from harness import env, selref
from harness.engine import ImplError, drive, impl
from harness.plans import plan

ID = "C16"
ALPHA = ("a", "b", "c")

NONE, ALL = ["none"], ["all"]


def S(a):
    return ["str", a]


def T(*a):
    return ["tup", list(a)]


def D(**kw):
    return ["dict", kw]


ATOMS = [
    NONE, ALL, S("a"), S("b"), T("a"), T("a", "b"), T("a", "b", "c"), T("b", "a"), T("c", "c"),
    D(a=NONE), D(a=ALL), D(a=S("b")), D(a=T("b")), D(a=T("b", "c")), D(a=D(b=ALL)), D(a=D(b=S("c"))),
    D(a=S("b"), b=ALL), D(a=ALL, c=T("a", "b")), D(a=["not", S("b")]), D(b=["or", S("a"), T("c", "a")]),
]

PATHS = [p for n in (1, 2, 3) for p in itertools.product(ALPHA, repeat=n)]


def depth1():
    out = [["not", a] for a in ATOMS]
    for a in ATOMS:
        for b in ATOMS:
            out.append(["or", a, b])
            out.append(["and", a, b])
    return out


def kinds(s, acc=None):
    acc = set() if acc is None else acc
    acc.add(s[0])
    if s[0] in ("or", "and"):
        kinds(s[1], acc), kinds(s[2], acc)
    elif s[0] == "not":
        kinds(s[1], acc)
    elif s[0] == "dict":
        for v in s[1].values():
            kinds(v, acc)
    return acc


def check_expr(expr, paths=PATHS):
    """Return list of (path, impl, ref) disagreements for one expression."""
    g = impl(selref.to_genjax, expr)
    bad = []
    for p in paths:
        try:
            got = bool(selref.impl_selected(g, p))
        except Exception as e:  # noqa: BLE001
            raise ImplError(e)
        ref = selref.selected(expr, p)
        if got != ref:
            bad.append((p, got, ref))
    return bad


def law_note(expr, p):
    """Which law of the statement the disagreement breaks (for the replay message)."""
    k = expr[0]
    try:
        if k in ("or", "and"):
            l = selref.impl_selected(selref.to_genjax(expr[1]), p)
            r = selref.impl_selected(selref.to_genjax(expr[2]), p)
            return f"impl says left={l} right={r}; law: s{'|' if k == 'or' else '^'}t selects iff {'either' if k == 'or' else 'both'}"
        if k == "not":
            i = selref.impl_selected(selref.to_genjax(expr[1]), p)
            return f"impl says operand={i}; law: ~s selects iff s does not"
    except Exception:  # noqa: BLE001
        pass
    return {"none": "law: sel() never selects", "all": "law: sel(()) always selects", "str": "law: sel('a') selects everything under a",
            "tup": "law: tuple selects exactly the sub-tree", "dict": "law: dict delegates per key"}.get(k, "")


def part_a(ctx):
    P = plan(ctx)
    d0, d1 = ATOMS, depth1()
    failing_kindsets = []

    def run(expr, record_nt):
        try:
            bad = check_expr(expr)
        except ImplError as e:
            ks = frozenset(kinds(expr))
            failing_kindsets.append(ks)
            ctx.fail("A.raises:" + "+".join(sorted(ks)) + ":" + e.sig(), f"{selref.show(expr)}: {e}", {"part": "A", "expr": expr})
            return
        ctx.evaluations += len(PATHS)
        ctx.count("A.pairs", len(PATHS))
        if record_nt and selref.n_connectives(expr) >= 1:
            ctx.distinct_by_construction += sum(1 for p in PATHS if len(p) >= 2)
        if bad:
            ks = frozenset(kinds(expr))
            if any(f < ks for f in failing_kindsets):
                ctx.count("A.nonminimal_failures_suppressed")
                return
            failing_kindsets.append(ks)
            p, got, ref = bad[0]
            ctx.fail("A.member:" + "+".join(sorted(ks)),
                     f"{selref.show(expr)} on path {'/'.join(p)}: implementation selects={got}, reference={ref} ({len(bad)} paths differ). {law_note(expr, p)}",
                     {"part": "A", "expr": expr, "path": list(p)})

    # every shard evaluates depth 0/1 (cheap) so that 'minimal failing kind-set' is decided identically everywhere;
    # only shard 0 counts them.
    for e in d0 + d1:
        run(e, ctx.shard == 0)
        if ctx.shard != 0:
            ctx.evaluations -= len(PATHS)
            ctx.counters["A.pairs"] -= len(PATHS)
    if len(ctx.samples) < 2:
        ctx.samples.append({"part": "A", "expr": selref.show(d1[37]), "paths": "all 39 paths of length 1..3 over abc"})
    # depth 2
    mode = P["depth2"]
    idx = 0
    if mode == "mixed":  # op(d1, atom), op(atom, d1), not(d1)
        gen = itertools.chain(
            (["not", x] for x in d1),
            ([op, x, a] for x in d1 for a in ATOMS for op in ("or", "and")),
            ([op, a, x] for x in d1 for a in ATOMS for op in ("or", "and")),
        )
    else:  # full: additionally op(d1, d1)
        gen = itertools.chain(
            (["not", x] for x in d1),
            ([op, x, a] for x in d1 for a in ATOMS for op in ("or", "and")),
            ([op, a, x] for x in d1 for a in ATOMS for op in ("or", "and")),
            ([op, x, y] for x in d1 for y in d1 for op in ("or", "and")),
        )
    for e in gen:
        if idx % ctx.nshards == ctx.shard:
            run(e, True)
            ctx.count("A.depth2_exprs")
        idx += 1
    ctx.count("A.exprs_total_this_shard", 0)


# ---------------------------------------------------------------------------
# B: filter / merge on raw nested dict shapes
# ---------------------------------------------------------------------------


def st_sel(max_leaves=6):
    from hypothesis import strategies as st

    atom = st.sampled_from(ATOMS)
    return st.recursive(
        atom,
        lambda ch: st.one_of(
            st.tuples(st.just("not"), ch).map(list),
            st.tuples(st.sampled_from(["or", "and"]), ch, ch).map(list),
            st.dictionaries(st.sampled_from(ALPHA), ch, min_size=1, max_size=2).map(lambda d: ["dict", d]),
        ),
        max_leaves=max_leaves,
    )


def st_shape(leaf_kinds=("s", "v"), depth=3):
    from hypothesis import strategies as st

    leaf = st.sampled_from(list(leaf_kinds))

    def level(d):
        if d == 1:
            return st.dictionaries(st.sampled_from(ALPHA), leaf, min_size=1, max_size=3)
        return st.dictionaries(st.sampled_from(ALPHA), st.one_of(leaf, level(d - 1)), min_size=1, max_size=3)

    return level(depth)


def fill(shape, counter=None):
    """Nested dict of distinct float arrays: leaf value identifies its path."""
    import jax.numpy as jnp

    counter = counter if counter is not None else [0]
    out = {}
    for a in sorted(shape):
        v = shape[a]
        if isinstance(v, dict):
            out[a] = fill(v, counter)
        else:
            counter[0] += 1
            base = float(counter[0])
            out[a] = jnp.asarray(base) if v == "s" else jnp.asarray([base, base + 0.25, base + 0.5])
    return out


def flat(x, prefix=()):
    out = {}
    if x is None:
        return out
    for a, v in x.items():
        if isinstance(v, dict):
            out.update(flat(v, prefix + (a,)))
        else:
            out[prefix + (a,)] = v
    return out


def same(a, b):
    a, b = np.asarray(a), np.asarray(b)
    return a.shape == b.shape and a.dtype == b.dtype and bool(np.array_equal(a, b, equal_nan=True))


def check_partition(gf, x, expr, tag):
    """filter(x, s) -> disjoint parts, first = selected leaves exactly, merge restores x."""
    fails = []
    g = selref.to_genjax(expr)
    try:
        xs, xu = impl(gf.filter, x, g)
    except ImplError as e:
        return [(f"{tag}.filter_raises:{e.sig()}", f"filter({selref.show(expr)}) raised {e}")]
    fx, fs, fu = flat(x), flat(xs), flat(xu)
    want = {p for p in fx if selref.selected(expr, p)}
    ks = "+".join(sorted(kinds(expr)))
    if set(fs) & set(fu):
        fails.append((f"{tag}.filter_not_disjoint", f"{selref.show(expr)}: leaves in both parts {sorted(set(fs) & set(fu))}"))
    if set(fs) | set(fu) != set(fx):
        fails.append((f"{tag}.filter_loses_or_invents", f"{selref.show(expr)}: union {sorted(set(fs) | set(fu))} != leaves {sorted(fx)}"))
    if set(fs) != want:
        extra, miss = sorted(set(fs) - want), sorted(want - set(fs))
        why = "intermediate-hit" if _intermediate_hit_case(expr, extra + miss) else "other"
        fails.append((f"{tag}.filter_selected_set:{why}",
                      f"{selref.show(expr)} on leaves {sorted('/'.join(p) for p in fx)}: first part has extra {extra} and misses {miss} (kinds {ks})"))
    for p in set(fs) | set(fu):
        v = fs.get(p, fu.get(p))
        if p in fx and not same(v, fx[p]):
            fails.append((f"{tag}.filter_changes_value", f"{selref.show(expr)}: value at {'/'.join(p)} changed by filter"))
            break
    if not fails:
        try:
            for first, second, name in ((xu, xs, "merge(unselected, selected)"), (xs, xu, "merge(selected, unselected)")):
                if first is None or second is None:
                    # `None` is the documented "empty part": the other part must already be all of x (as mala/hmc assume)
                    m = second if first is None else first
                    m = {} if m is None else m
                else:
                    m, _ = impl(gf.merge, first, second)
                fm = flat(m)
                if set(fm) != set(fx) or any(not same(fm[p], fx[p]) for p in fx):
                    fails.append((f"{tag}.merge_not_inverse", f"{selref.show(expr)}: {name} != x"))
                    break
        except ImplError as e:
            fails.append((f"{tag}.merge_raises:{e.sig()}", f"{selref.show(expr)}: merge of the two parts raised {e}"))
    return fails


def _intermediate_hit_case(expr, paths):
    """True when every disagreeing leaf is one where the *first-level* match decision differs from the
    full-path decision (the Fn.filter short-circuit pattern: complement / short tuple)."""
    try:
        g = selref.to_genjax(expr)
        for p in paths:
            s, hit_chain = g, []
            for a in p:
                h, s = s.match(a)
                hit_chain.append(h)
            final = () in s
            if all(h == final for h in hit_chain):
                return False
        return bool(paths)
    except Exception:  # noqa: BLE001
        return False


def part_b(ctx):
    from hypothesis import strategies as st
    from genjax import gen

    P = plan(ctx)

    @gen
    def anyfn():
        return 0.0

    def one(case):
        env.reset()
        shape, expr = case["shape"], case["expr"]
        x = fill(shape)
        fails = check_partition(anyfn, x, expr, "B")
        leaves = selref.leaf_paths(shape)
        nt = selref.n_connectives(expr) >= 1 and any(len(p) >= 2 for p in leaves)
        cls = ["B.filter_cases"]
        if any(v == "v" for v in _leafvals(shape)):
            cls.append("B.shape_with_vector_leaf")
        ctx.case(case, nt, cls, sample={"part": "B", "shape": shape, "expr": selref.show(expr)})
        for b, w in fails:
            ctx.fail(b, w, case)

    strat = st.fixed_dictionaries({"part": st.just("B"), "shape": st_shape(), "expr": st_sel()})
    drive(ctx, strat, P["n_filter"], one, "B")
    # direct filter on combinator GFs (Vmap / Scan / Cond delegate)
    part_b_combinators(ctx, P)


def _leafvals(shape):
    for v in shape.values():
        if isinstance(v, dict):
            yield from _leafvals(v)
        else:
            yield v


def combinator_gfs():
    import jax.numpy as jnp
    from genjax import Cond, Scan, const, gen, normal

    @gen
    def inner(x):
        a = normal(x, 1.0) @ "a"
        b = normal(a, 1.0) @ "b"
        return a + b

    @gen
    def step(c, x):
        a = normal(c, 1.0) @ "a"
        b = normal(a + x, 1.0) @ "b"
        return b, a

    gfs = {
        "vmap": (inner.vmap(in_axes=(0,)), {"a": jnp.arange(3.0), "b": jnp.arange(3.0) + 10}),
        "scan": (Scan(step, length=const(3)), {"a": jnp.arange(3.0), "b": jnp.arange(3.0) + 10}),
        "cond": (Cond(inner, inner), {"a": jnp.asarray(1.0), "b": jnp.asarray(2.0)}),
    }

    return gfs


def part_b_combinators(ctx, P):
    from hypothesis import strategies as st

    gfs = combinator_gfs()

    def one(case):
        env.reset()
        gf, x = gfs[case["gf"]]
        fails = check_partition(gf, x, case["expr"], "B." + case["gf"])
        ctx.case(case, selref.n_connectives(case["expr"]) >= 1, ["B.combinator_filter_cases", "B.shape_with_vector_leaf"] + (["B.shape_with_cond_leaf"] if case["gf"] == "cond" else []),
                 sample={"part": "B", "gf": case["gf"], "expr": selref.show(case["expr"])})
        for b, w in fails:
            ctx.fail(b, w, case)

    strat = st.fixed_dictionaries({"part": st.just("Bc"), "gf": st.sampled_from(sorted(gfs)), "expr": st_sel(4)})
    drive(ctx, strat, max(6, P["n_filter"] // 6), one, "Bc")


# ---------------------------------------------------------------------------
# C: agreement with regenerate / mala / hmc on real programs
# ---------------------------------------------------------------------------
# program shape: dict addr -> "s" | "v" | {"fn": shape} | {"vmap": shape} | {"cond": shape} | {"scan": shape}


def st_prog(depth=2):
    from hypothesis import strategies as st

    leaf = st.sampled_from(["s", "s", "v"])

    def level(d):
        if d == 0:
            return st.dictionaries(st.sampled_from(ALPHA), leaf, min_size=1, max_size=3)
        sub = level(d - 1)
        node = st.one_of(
            leaf,
            st.fixed_dictionaries({"fn": sub}),
            st.fixed_dictionaries({"vmap": sub}),
            st.fixed_dictionaries({"cond": sub}),
            st.fixed_dictionaries({"scan": level(0)}),
        )
        return st.dictionaries(st.sampled_from(ALPHA), node, min_size=1, max_size=3)

    return level(depth)


def build(shape, offset=0.0):
    """genjax program whose choice map has the given shape (all sites are continuous normals)."""
    import jax.numpy as jnp
    from genjax import Cond, Scan, const, gen, normal

    subs = {}
    for a in sorted(shape):
        v = shape[a]
        if isinstance(v, dict):
            (kind, sub), = v.items()
            if kind == "cond":
                subs[a] = (kind, Cond(build(sub, offset + 1.0), build(sub, offset - 1.0)))
            elif kind == "scan":
                inner = build(sub, offset)

                @gen
                def stepfn(c, x, inner=inner):
                    r = inner(c) @ "a"
                    return c + 0.1 * x, r

                subs[a] = (kind, Scan(stepfn, length=const(2)))
            elif kind == "vmap":
                subs[a] = (kind, build(sub, offset).vmap(in_axes=(0,)))
            else:
                subs[a] = (kind, build(sub, offset))

    @gen
    def f(x):
        acc = x
        for a in sorted(shape):
            v = shape[a]
            if v == "s":
                acc = acc + 0.1 * (normal(offset + 0.1 * x, 1.0) @ a)
            elif v == "v":
                acc = acc + 0.1 * jnp.sum(normal.vmap(in_axes=(0, None))(jnp.arange(3.0) + offset, 1.0) @ a)
            else:
                kind, g = subs[a]
                if kind == "cond":
                    r = g(acc > 0.0, x) @ a
                    acc = acc + 0.0 * r
                elif kind == "scan":
                    _c, outs = g(x, jnp.arange(2.0)) @ a
                    acc = acc + 0.0 * jnp.sum(outs)
                elif kind == "vmap":
                    r = g(jnp.arange(2.0) + x) @ a
                    acc = acc + 0.0 * jnp.sum(r)
                else:
                    r = g(x) @ a
                    acc = acc + 0.0 * r
        return acc

    return f


def choice_shape(shape):
    """The nested-dict shape of the program's choice map (scan wraps the inner map under 'a')."""
    out = {}
    for a, v in shape.items():
        if isinstance(v, dict):
            (kind, sub), = v.items()
            out[a] = {"a": choice_shape(sub)} if kind == "scan" else choice_shape(sub)
        else:
            out[a] = v
    return out


def prog_kinds(shape, acc=None):
    acc = set() if acc is None else acc
    for v in shape.values():
        if isinstance(v, dict):
            (kind, sub), = v.items()
            acc.add(kind)
            prog_kinds(sub, acc)
        else:
            acc.add(v)
    return acc


def classify_c(case):
    import jax
    from genjax import seed
    from genjax.inference import hmc, mala
    from genjax.state import state

    shape, expr, kseed = case["shape"], case["expr"], case["key"]
    fails = []
    gf = build(shape)
    g = selref.to_genjax(expr)
    k0 = env.key(kseed, 0)
    try:
        tr = impl(seed(gf.simulate), k0, 0.3)
        ch = impl(tr.get_choices)
    except ImplError as e:
        return [("C.simulate_raises:" + e.sig(), str(e))], {}
    fx = flat(ch)
    if set(fx) != set(selref.leaf_paths(choice_shape(shape))):
        return [("C.choice_shape", f"choice map leaves {sorted(fx)} != expected {selref.leaf_paths(choice_shape(shape))}")], {}
    want = {p for p in fx if selref.selected(expr, p)}
    info = {"n_leaves": len(fx), "n_selected": len(want)}
    fails += check_partition(gf, ch, expr, "C")

    def moved_sets(fn, nkeys):
        """For each key: set of leaf paths whose value differs from the input trace."""
        out = []
        for i in range(nkeys):
            ntr = fn(env.key(kseed, 1, i))
            fn_ = flat(impl(ntr.get_choices))
            out.append({p for p in fx if not same(fn_[p], fx[p])} | {("<missing>",) + p for p in fx if p not in fn_})
        return out

    # regenerate: exactly the selected leaves are resampled (every element, every key)
    try:
        ms = impl(moved_sets, lambda k: seed(gf.regenerate)(k, tr, g, 0.3)[0], 3)
        always = set.intersection(*ms)
        ever = set.union(*ms)
        if ever - want:
            fails.append(("C.regenerate_changes_unselected", f"{selref.show(expr)}: regenerate changed unselected leaves {sorted(ever - want)}"))
        if want - always:
            fails.append(("C.regenerate_keeps_selected", f"{selref.show(expr)}: selected leaves not resampled {sorted(want - always)} (3 keys)"))
    except ImplError as e:
        fails.append(("C.regenerate_raises:" + e.sig(), f"{selref.show(expr)} on program {shape}: {e}"))

    for name, kern in (("mala", lambda t: mala(t, g, 0.05)), ("hmc", lambda t: hmc(t, g, 0.02, 2))):
        try:
            ms = impl(moved_sets, lambda k, kern=kern: seed(lambda t: state(kern)(t)[0])(k, tr), 3)
            ever = set.union(*ms)
            if ever - want:
                fails.append((f"C.{name}_moves_unselected", f"{selref.show(expr)}: {name} moved unselected leaves {sorted(ever - want)}"))
            if want - ever:
                fails.append((f"C.{name}_never_moves_selected", f"{selref.show(expr)}: selected leaves never moved by {name} in 3 accepted-with-high-probability steps: {sorted(want - ever)}"))
        except ImplError as e:
            fails.append((f"C.{name}_raises:" + e.sig(), f"{selref.show(expr)} on program {shape}: {e}"))
    return fails, info


def part_c(ctx):
    from hypothesis import strategies as st

    P = plan(ctx)

    def one(case):
        env.reset()
        fails, info = classify_c(case)
        pk = prog_kinds(case["shape"])
        nt = selref.n_connectives(case["expr"]) >= 1 and info.get("n_leaves", 0) >= 2
        cls = ["C.regenerate_cases", "C.mala_cases", "C.hmc_cases"] + [f"C.prog_with_{k}" for k in sorted(pk)]
        if "v" in pk or "vmap" in pk or "scan" in pk:
            cls.append("B.shape_with_vector_leaf")
        if "cond" in pk:
            cls.append("B.shape_with_cond_leaf")
        if info.get("n_selected", 0) not in (0, info.get("n_leaves", 0)):
            cls.append("C.proper_nonempty_selection")
        ctx.case(case, nt, cls, sample={"part": "C", "program": case["shape"], "expr": selref.show(case["expr"]), **info})
        for b, w in fails:
            ctx.fail(b, w, case)

    strat = st.fixed_dictionaries({"part": st.just("C"), "shape": st_prog(), "expr": st_sel(5), "key": st.integers(0, 10**6)})
    drive(ctx, strat, P["n_agree"], one, "C")


def run_shard(ctx):
    part_a(ctx)
    part_b(ctx)
    part_c(ctx)


def replay(case):
    part = case.get("part")
    if part == "A":
        bad = check_expr(case["expr"])
        return [("A.member:" + "+".join(sorted(kinds(case["expr"]))), f"{selref.show(case['expr'])}: {bad[:3]}")] if bad else []
    if part == "B":
        from genjax import gen

        @gen
        def anyfn():
            return 0.0

        return check_partition(anyfn, fill(case["shape"]), case["expr"], "B")
    if part == "Bc":
        gf, x = combinator_gfs()[case["gf"]]
        return check_partition(gf, x, case["expr"], "B." + case["gf"])
    if part == "C":
        return classify_c(case)[0]
    raise ValueError("unknown part")
