"""C06 - a seeded function is a pure, transform-stable function of key and arguments (history-based check).

A case is a *history*: a small set of generated programs (seedir shapes) and a list of operations
   run(p, k, mode, arg)      mode in {eager, jit, vmap_keys, jit_vmap_keys};  arg in {1.0, kw 2.0, vector}
   interfere(kind)           unseeded sampling (advances the global counter), unseeded run of a program,
                             jax.clear_caches(), a seeded run of a freshly built program with another argument shape
Oracle: table (p, k, arg) -> first result; every later run of the same (p, k, arg) must agree with it - bit-identical in
the same mode, within 8 ulp across modes (XLA may fuse a multiply-add); lane i of a vmap-over-keys run equals the
single-key run; different keys give different continuous draws.
"""
import numpy as np

from harness import env, gfi, seedir
from harness.engine import ImplError, drive, impl
from harness.plans import plan

ID = "C06"
ARGS = {"s1": ((), {}), "kw2": ((), {"scale": 2.0}), "pos3": ((3.0,), {}), "pos5": ((0.5,), {}), "kw4": ((), {"scale": 4.0}), "vec": (([1.0, 2.0],), {})}


def arg_values(name):
    import jax.numpy as jnp

    a, kw = ARGS[name]
    return tuple(jnp.asarray(x, dtype=jnp.float32) for x in a), {k: jnp.asarray(v, dtype=jnp.float32) for k, v in kw.items()}


def compatible(shape, argname):
    """vector scale broadcasts against every site only if no site has a trailing dim that conflicts"""
    if argname != "vec":
        return True

    def ok(nd):
        if nd[0] == "site":
            return not nd[2] or nd[2][-1] == 2
        if nd[0] == "seq":
            return all(ok(c) for c in nd[1])
        if nd[0] == "cond":
            return False  # branch summaries must be scalars
        if nd[0] in ("scan", "vmap"):
            return False
        return ok(nd[1])

    return ok(shape)


def run_history(case):
    import jax
    import jax.numpy as jnp
    from genjax import normal, seed

    shapes = case["programs"]
    K = "|" + "+".join(sorted({x for s in shapes for k in seedir.kinds(s) for x in k}) or ["top"])
    info = {"ops": 0, "repeats_after_interference": 0, "modes": set(), "interference": 0}
    raw = [impl(seedir.build, s) for s in shapes]

    def seeded(g, shape):
        """seed(g) as a function of (key, *args); programs with a nested seed receive its key as an argument derived from the outer key"""
        if "nseed" in str(shape):
            return lambda kk, *a, **kw: seed(g)(kk, *a, ikey=jax.random.fold_in(kk, 12345), **kw)
        return seed(g)

    fns = raw
    sfn = [seeded(g, s) for g, s in zip(raw, shapes)]
    jits = {}
    table = {}  # (p, k, arg) -> {"mode":..., "res":..., "since_interference":...}
    interfered_since = {}
    unit = {}  # (p, k) -> (argname, result / scale) of the first scalar-scale run
    fails = []

    def key_of(k):
        return env.key(case["key"], 100 + k)

    def to_np(res):
        return {p: np.asarray(v) for p, v in res.items()}

    for step, op in enumerate(case["ops"]):
        info["ops"] += 1
        try:
            if op["op"] == "interfere":
                info["interference"] += 1
                for t in interfered_since:
                    interfered_since[t] = True
                kind = op["kind"]
                if kind == "unseeded_site":
                    for _ in range(op["n"]):
                        impl(normal.sample, 0.0, 1.0)
                elif kind == "unseeded_program":
                    p = op["p"] % len(fns)
                    if "scan" not in str(shapes[p]) and "cond" not in str(shapes[p]) and "remat" not in str(shapes[p]) and "nseed" not in str(shapes[p]):
                        impl(fns[p])
                    else:
                        impl(normal.sample, 0.0, 1.0)
                elif kind == "clear_caches":
                    jax.clear_caches()
                    jits.clear()
                elif kind == "other_shape":
                    p = op["p"] % len(fns)
                    g = impl(seedir.build, shapes[p])
                    impl(seeded(g, shapes[p]), key_of(9), jnp.asarray(0.5, dtype=jnp.float32))
                continue
            p, k, mode, argname = op["p"] % len(fns), op["k"], op["mode"], op["arg"]
            if not compatible(shapes[p], argname):
                argname = "s1"
            a, kw = arg_values(argname)
            f = fns[p]
            info["modes"].add(mode)
            if mode == "eager":
                res = to_np(impl(sfn[p], key_of(k), *a, **kw))
            elif mode == "jit":
                jf = jits.setdefault((p, "jit"), jax.jit(sfn[p]))
                res = to_np(impl(jf, key_of(k), *a, **kw))
            else:
                keys = jnp.stack([key_of(k + 1), key_of(k), key_of(k + 2)])
                vf = jax.vmap(lambda kk: sfn[p](kk, *a, **kw))
                if mode == "jit_vmap_keys":
                    vf = jits.setdefault((p, "jv", argname), jax.jit(vf))
                out = to_np(impl(vf, keys))
                res = {q: v[1] for q, v in out.items()}
                others = [{q: v[0] for q, v in out.items()}, {q: v[2] for q, v in out.items()}]
                for o in others:
                    same = [q for q in res if res[q].size and np.array_equal(res[q], o[q]) and np.any(res[q] != 0)]
                    if same:
                        fails.append((f"distinct_keys_same_draws{K}", f"step {step}: positions {same[:3]} are identical for two different keys"))
        except ImplError as e:
            if "remat" in K and type(e.exc).__name__ == "LoweringSamplePrimitiveToMLIRException":
                info["rejected"] = info.get("rejected", 0) + 1  # seed may refuse constructs it does not interpret (C14); nothing to compare
                continue
            return [(f"raises[{op.get('mode', op.get('kind'))}]:{e.sig()}{K}", f"step {step} {op}: {e}")], info
        # the result is a function of the *value* of the arguments: every position of a seedir program is scale * draw
        # with standard parameters, so results for two scalar scales differ exactly by their ratio (stale closed-over
        # constants of an earlier call with the same argument shapes would break this)
        if argname != "vec":
            sc = {"s1": 1.0, "kw2": 2.0, "pos3": 3.0, "pos5": 0.5, "kw4": 4.0}[argname]
            t2 = (p, k)
            if t2 not in unit:
                unit[t2] = (argname, {q: np.asarray(v, dtype=np.float64) / sc for q, v in res.items()})
            elif unit[t2][0] != argname:
                info["arg_value_pairs"] = info.get("arg_value_pairs", 0) + 1
                base_u = unit[t2][1]
                badq = [q for q in res if q in base_u and not gfi.ulp_close((np.asarray(res[q], dtype=np.float64) / sc).astype(np.float32), base_u[q].astype(np.float32), 16)]
                if badq:
                    q = badq[0]
                    fails.append((f"result_ignores_argument_value{K}", f"step {step}: program {p} key {k}: with scale argument {argname} position {q} = {np.asarray(res[q]).ravel()[:3].tolist()}, "
                                  f"but scale * (unit-scale result from the {unit[t2][0]} run) = {(base_u[q] * sc).ravel()[:3].tolist()}"))
        t = (p, k, argname)
        if t not in table:
            table[t] = {"mode": mode, "res": res}
            interfered_since[t] = False
        else:
            base = table[t]
            if interfered_since[t]:
                info["repeats_after_interference"] += 1
            same_mode_class = (mode in ("eager",)) == (base["mode"] in ("eager",)) and mode == base["mode"]
            bad = []
            for q in base["res"]:
                if q not in res:
                    bad.append(q)
                elif same_mode_class and not gfi.bit_equal(res[q], base["res"][q]):
                    bad.append(q)
                elif not same_mode_class and not gfi.ulp_close(res[q], base["res"][q], 16):
                    bad.append(q)
            if bad or set(res) != set(base["res"]):
                q = bad[0] if bad else sorted(set(res) ^ set(base["res"]))[0]
                kind = "repeat_not_identical" if same_mode_class else f"modes_disagree[{base['mode']}-vs-{mode}]"
                fails.append((f"{kind}{K}", f"step {step}: program {p} key {k} arg {argname}: position {q} = {np.asarray(res.get(q)).ravel()[:3].tolist()} but the first run ({base['mode']}) gave {np.asarray(base['res'].get(q)).ravel()[:3].tolist()}; interference in between: {interfered_since[t]}"))
        # different keys, same program/arg: draws differ
        for (p2, k2, a2), b in table.items():
            if p2 == p and a2 == argname and k2 != k:
                same = [q for q in res if res[q].size and q in b["res"] and np.array_equal(res[q], b["res"][q]) and np.any(res[q] != 0)]
                if same:
                    fails.append((f"distinct_keys_same_draws{K}", f"step {step}: program {p}: keys {k} and {k2} give identical draws at {same[:3]}"))
        if fails:
            return fails, info
    return fails, info


def histories(remat=False):
    from hypothesis import strategies as st

    run = st.fixed_dictionaries({"op": st.just("run"), "p": st.integers(0, 2), "k": st.integers(0, 1),
                                 "mode": st.sampled_from(["eager", "eager", "jit", "vmap_keys", "jit_vmap_keys"]), "arg": st.sampled_from(["s1", "s1", "s1", "pos3", "pos3", "pos3", "pos5", "pos5", "kw2", "kw4", "vec"])})
    interfere = st.one_of(
        st.fixed_dictionaries({"op": st.just("interfere"), "kind": st.just("unseeded_site"), "n": st.integers(1, 5)}),
        st.fixed_dictionaries({"op": st.just("interfere"), "kind": st.just("unseeded_program"), "p": st.integers(0, 2)}),
        st.fixed_dictionaries({"op": st.just("interfere"), "kind": st.just("clear_caches")}),
        st.fixed_dictionaries({"op": st.just("interfere"), "kind": st.just("other_shape"), "p": st.integers(0, 2)}),
    )
    progs = st.lists(seedir.shapes(max_leaves=4, nseed=True), min_size=1, max_size=2)
    if remat:  # programs seed may refuse (then nothing is compared); if it accepts them the result must still be pure
        progs = st.lists(st.builds(lambda s, k: ["remat", s, k], seedir.shapes(max_leaves=2), st.sampled_from(["checkpoint", "custom_jvp"])), min_size=1, max_size=1)
    return st.fixed_dictionaries({"programs": progs, "key": st.integers(0, 2**30),
                                  "ops": st.lists(st.one_of(run, run, run, interfere), min_size=8, max_size=20 if not remat else 8)})


def one_case(ctx, case):
    env.reset()
    fails, info = run_history(case)
    kinds = sorted({x for s in case["programs"] for k in seedir.kinds(s) for x in k})
    nt = info["repeats_after_interference"] >= 1 and bool(set(kinds) & {"scan", "cond", "vmap", "site_ss"})
    ctx.case(case, nt, [f"C06.mode_{m}" for m in sorted(info["modes"])] + [f"C06.prog_with_{k}" for k in kinds] + (["C06.repeat_after_interference"] if info["repeats_after_interference"] else []),
             sample={**case, "info": {**info, "modes": sorted(info["modes"])}})
    ctx.count("C06.ops_total", info["ops"])
    if info.get("arg_value_pairs"):
        ctx.count("C06.same_key_other_argument_value_compared", info["arg_value_pairs"])
    if info.get("rejected"):
        ctx.count("C06.runs_refused_by_seed_with_the_dedicated_error", info["rejected"])
    for b, w in fails:
        ctx.fail(b, w, case)


def run_shard(ctx):
    P = plan(ctx)
    drive(ctx, histories(), P["n_histories"], lambda c: one_case(ctx, c), "hist")
    drive(ctx, histories(remat=True), P.get("n_remat", 2), lambda c: one_case(ctx, c), "remat")


def replay(case):
    return run_history(case)[0]
