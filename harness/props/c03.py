"""C03 - update returns the density ratio, keeps unconstrained choices, and is invertible."""
import numpy as np

from harness import env, gfi, modelir, refmodel
from harness.engine import ImplError, drive, impl
from harness.plans import plan
from harness.props.c01 import feat
from harness.props.c02 import constraint_map

ID = "C03"


def preds_of(ref, rargs, rkw, ch):
    ref.preds = []
    try:
        ref.score(rargs, rkw, ch)
        return list(ref.preds)
    finally:
        ref.preds = None


def without(ch, S):
    flat = refmodel.flat_leaves(ch)
    return refmodel.nest({p: v for p, v in flat.items() if p not in S})


def cast_like(new, old):
    """Reference samples come back as float64 / python scalars: give them the dtype the trace uses."""
    fo = refmodel.flat_leaves(old)
    return refmodel.nest({p: np.asarray(v).astype(np.asarray(fo[p]).dtype) for p, v in refmodel.flat_leaves(new).items()})


def stored_args_check(tr, jargs, jkw, C):
    """the updated trace records the *new* arguments (later edits and kernels re-use them)"""
    import jax

    try:
        a = impl(tr.get_args)
    except ImplError as e:
        return [(f"get_args_raises:{e.sig()}:{C}", str(e))]
    got = [np.asarray(x) for x in jax.tree_util.tree_leaves(a)]
    want = [np.asarray(x) for x in jax.tree_util.tree_leaves((tuple(jargs), dict(jkw)))]
    def same(g, w):
        # a vectorized (Vmap) trace records per-lane arguments: an unmapped argument comes back broadcast over the lanes
        try:
            return np.array_equal(g.astype(np.float64), np.broadcast_to(w.astype(np.float64), g.shape))
        except ValueError:
            return False

    if len(got) != len(want) or any(not same(g, w) for g, w in zip(got, want)):
        return [(f"trace_records_stale_args:{C}", f"after update the trace's get_args() = {[g.tolist() for g in got]} but it was updated to arguments {[w.tolist() for w in want]}")]
    return []


def classify(case):
    if case.get("top"):
        return classify_top(case)
    from genjax import seed

    prog = case["prog"]
    F = feat(prog)
    fails, info = [], {"features": F}
    ref = refmodel.Ref(prog)
    rargs0, rkw0 = gfi.ref_args(case)
    jargs0, jkw0 = modelir.jargs(case)
    new_case = {"args": case["new_args"], "kwargs": case["new_kwargs"]}
    rargs1, rkw1 = gfi.ref_args(new_case)
    jargs1, jkw1 = modelir.jargs(new_case)
    gf = impl(modelir.build, prog)
    rng = np.random.default_rng(case["key"])

    # old trace: generate with a random constraint subset (so that traces are not only prior samples)
    ch_ref, _ = ref.sample(rargs0, rkw0, rng)
    S0 = [tuple(p) for p in case["gen_subset"] if refmodel.has_path(ch_ref, tuple(p))]
    try:
        tr0, _ = impl(seed(gf.generate), env.key(case["key"], 1), modelir.to_jnp(constraint_map(ch_ref, S0)) if S0 else None, *jargs0, **jkw0)
        ch0 = gfi.to_np(impl(tr0.get_choices))
    except ImplError as e:
        return [(f"setup_generate_raises:{e.sig()}|{F}", str(e))], info
    r0 = ref.score(rargs0, rkw0, ch0)
    paths = sorted(refmodel.flat_leaves(ch0))
    S = [tuple(p) for p in case["upd_subset"] if tuple(p) in paths]
    # new values for S: drawn from the reference conditional priors given the values that are kept (incl. under new args)
    ch_new, _ = ref.sample(rargs1, rkw1, rng, given=without(ch0, set(S)))
    ch_new = cast_like(ch_new, ch0)
    try:
        r1 = ref.score(rargs1, rkw1, ch_new)
    except Exception as e:  # noqa: BLE001
        return [], {**info, "skipped": f"reference cannot score the target choice map: {e}"}
    p0, p1 = preds_of(ref, rargs0, rkw0, ch0), preds_of(ref, rargs1, rkw1, ch_new)
    flipped = [a[:2] for a, b in zip(p0, p1) if a[:2] == b[:2] and a[2] != b[2]] if len(p0) == len(p1) else ["structure"]
    flip = "flip" if flipped else "noflip"
    args_changed = (case["new_args"] != case["args"]) or (case["new_kwargs"] != case["kwargs"])
    info.update({"flip": flip, "n_constrained": len(S), "args_changed": args_changed, "finite": bool(np.isfinite(r1["logp"]))})
    C = f"{flip}|{F}"
    cons = modelir.to_jnp(constraint_map(ch_new, S)) if S else (None if case.get("none_as") == "None" else {})

    try:
        tr1, w, disc = impl(gf.update, tr0, cons, *jargs1, **jkw1)
        ch1 = gfi.to_np(impl(tr1.get_choices))
    except ImplError as e:
        return [(f"update_raises:{e.sig()}:{C}", f"constraints {S}, new args {case['new_args']}: {e}")], info
    if np.isfinite(r1["logp"]):
        f2, _ = gfi.coherent(gf, ref, tr1, rargs1, rkw1, jargs1, jkw1, tag="update")
        fails += [(f"{b}:{C}", m) for b, m in f2]
    fails += stored_args_check(tr1, jargs1, jkw1, C)
    f1, fn, f0 = refmodel.flat_leaves(ch1), refmodel.flat_leaves(ch_new), refmodel.flat_leaves(ch0)
    if set(f1) != set(f0):
        fails.append((f"address_set_changed:{C}", f"{sorted(set(f1) ^ set(f0))}"))
    for p in paths:
        if p not in f1:
            continue
        if p in S and not gfi.bit_equal(f1[p], fn[p]):
            fails.append((f"constrained_value_not_installed:{C}", f"{'/'.join(p)}: constrained to {np.asarray(fn[p]).tolist()}, trace holds {f1[p].tolist()}"))
            break
        if p not in S and not gfi.bit_equal(f1[p], f0[p]):
            fails.append((f"unconstrained_value_changed:{C}", f"{'/'.join(p)}: old visible value {f0[p].tolist()}, after update {f1[p].tolist()} (not constrained; constraints {S}; flipped conds {flipped})"))
            break
    w = float(np.asarray(w))
    want = r1["logp"] - r0["logp"]
    if np.isfinite(want) and not any(b.startswith(("unconstrained_value_changed", "constrained_value_not")) for b, _ in fails):
        if not gfi.close(w, want, r0["mag"] + r1["mag"]):
            fails.append((f"weight:{C}", f"update weight {w} != log p(new; new args) - log p(old; old args) = {r1['logp']} - {r0['logp']} = {want} (constraints {S}, flipped {flipped})"))
    # discard
    fd = refmodel.flat_leaves(gfi.to_np(disc)) if isinstance(disc, dict) else ({(): np.asarray(disc)} if disc is not None else {})
    fd = {p: v for p, v in fd.items() if v is not None}
    for p in S:
        if p not in fd:
            fails.append((f"discard_missing:{C}", f"overwritten address {'/'.join(p)} not in discard (keys {sorted(fd)})"))
            break
        if not gfi.bit_equal(np.asarray(fd[p]), f0[p]):
            fails.append((f"discard_value:{C}", f"discard at {'/'.join(p)} = {np.asarray(fd[p]).tolist()} but the old visible value was {f0[p].tolist()}"))
            break
    else:
        for p, v in fd.items():
            if p in f0 and p not in S and not gfi.bit_equal(np.asarray(v), f0[p]):
                fails.append((f"discard_extra_not_old_value:{C}", f"discard has {'/'.join(p)} = {np.asarray(v).tolist()} (not overwritten) which is not its old visible value {f0[p].tolist()}"))
                break
    # round trip
    if not fails and np.isfinite(want):
        try:
            tr2, w2, _ = impl(gf.update, tr1, disc, *jargs0, **jkw0)
            f2 = refmodel.flat_leaves(gfi.to_np(impl(tr2.get_choices)))
            bad = [p for p in f0 if p not in f2 or not gfi.bit_equal(f2[p], f0[p])]
            if bad:
                fails.append((f"roundtrip_choices:{C}", f"update back with the discard does not restore {['/'.join(p) for p in bad[:4]]}"))
            elif not gfi.close(float(np.asarray(w2)), -want, r0["mag"] + r1["mag"]):
                fails.append((f"roundtrip_weight:{C}", f"update-back weight {float(np.asarray(w2))} != -(forward weight) {-want}"))
            else:
                f3, _ = gfi.coherent(gf, ref, tr2, rargs0, rkw0, jargs0, jkw0, tag="roundtrip")
                fails += [(f"{b}:{C}", m) for b, m in f3]
        except ImplError as e:
            fails.append((f"roundtrip_raises:{e.sig()}:{C}", str(e)))
    # trace.update convenience (stored args)
    if not fails:
        try:
            ch_same, _ = ref.sample(rargs0, rkw0, rng, given=without(ch0, set(S)))
            ch_same = cast_like(ch_same, ch0)
            rs = ref.score(rargs0, rkw0, ch_same)
            if np.isfinite(rs["logp"]):
                cons_s = modelir.to_jnp(constraint_map(ch_same, S)) if S else {}
                tr3, w3, _ = impl(tr0.update, cons_s)
                f3 = refmodel.flat_leaves(gfi.to_np(tr3.get_choices()))
                fs = refmodel.flat_leaves(ch_same)
                if any(not gfi.bit_equal(f3[p], fs[p]) for p in fs):
                    fails.append((f"trace_update_choices:{C}", "trace.update(x) (stored args) did not produce the constrained/kept values"))
                elif not gfi.close(float(np.asarray(w3)), rs["logp"] - r0["logp"], rs["mag"] + r0["mag"]):
                    fails.append((f"trace_update_weight:{C}", f"trace.update(x) weight {float(np.asarray(w3))} != {rs['logp'] - r0['logp']}"))
        except ImplError as e:
            fails.append((f"trace_update_raises:{e.sig()}:{C}", str(e)))
    return fails, info


def cases(discrete, force=None):
    from hypothesis import strategies as st

    delta = st.sampled_from([0.0, 0.0, 0.25, -0.5, 1.0, -1.5, 3.0, -3.0])

    @st.composite
    def _c(draw):
        p = draw(modelir.programs(discrete=discrete, force=force))
        ref = refmodel.Ref(p["prog"])
        paths = sorted(ref.leaf_info(*gfi.ref_args(p)))
        sub = st.lists(st.sampled_from(paths), unique=True, max_size=len(paths))
        new_args = [round(a + draw(delta), 2) for a in p["args"]]
        new_kw = {k: round(v + draw(delta), 2) for k, v in p["kwargs"].items()}
        return {**p, "key": draw(st.integers(0, 2**30)), "discrete": discrete, "gen_subset": [list(q) for q in draw(sub)],
                "upd_subset": [list(q) for q in draw(sub)], "new_args": new_args, "new_kwargs": new_kw,
                "none_as": draw(st.sampled_from(["None", "dict"]))}

    return _c()


def run_shard(ctx):
    P = plan(ctx)

    def one(case):
        env.reset()
        fails, info = classify(case)
        fs = modelir.features(case["prog"])
        nt = (info.get("n_constrained", 0) > 0 or info.get("args_changed", False)) and (bool(fs & {"vmap", "scan", "cond", "vdist", "call", "nest"}) or "dep" in fs)
        cls = [f"C03.{info.get('flip', 'skipped')}", f"C03.args_{'changed' if info.get('args_changed') else 'same'}",
               f"C03.constraints_{'some' if info.get('n_constrained') else 'none'}"] + [f"C03.prog_with_{f}" for f in sorted(fs)]
        if not info.get("finite", True):
            cls.append("C03.target_outside_support")
        if case.get("top"):
            cls.append(f"C03.top_level_{case['top']}")
        ctx.case(case, nt or bool(case.get("top")), cls, sample={"program": case["prog"], "args": case.get("top_args", case["args"]), "new_args": case.get("top_new_args", case.get("new_args")),
                                                                  "constrained": case["upd_subset"], "info": info})
        for b, w in fails:
            ctx.fail(b, w, case)

    n = P["n_cases"]
    drive(ctx, top_cases(), P.get("n_top", 3), one, "top")
    forces = ["cond", "scan", "vmap", "indicator", "vdist", "call", "condm", "detcall"]
    drive(ctx, cases(False, forces[ctx.shard % len(forces)]), n - n // 3, one, "cont")
    drive(ctx, cases(True, forces[(ctx.shard + 1) % len(forces)]), n // 3, one, "disc")
    nk = modelir.NEST_KINDS  # combinators applied directly to combinators
    drive(ctx, cases(ctx.shard % 3 == 2, nk[ctx.shard % len(nk)]), P.get("n_nest", max(2, n // 3)), one, "nest")


def replay(case):
    return classify(case)[0]


# ---------------------------------------------------------------------------------------------------------------
# traces whose generative function is a combinator itself (Scan / Vmap / Cond at top level)
def top_wrapper(case):
    """-> (reference program with a synthetic main that has one combinator statement at address 't', builder of the genjax GF)"""
    prog, top = case["prog"], case["top"]
    st = next(s for s in prog["fns"]["main"]["body"] if s[0] == top)
    fns = {k: v for k, v in prog["fns"].items() if k != "main"}
    if top == "scan":
        _, _, f, L, _, _ = st
        main = {"np": 2, "kw": [], "body": [["scan", "t", f, L, ["p", 0], ["p", 1]]], "ret": ["sc", "t"]}
        meta = {"f": f, "L": L}
    elif top == "vmap":
        _, _, f, axes, n, _ = st
        main = {"np": len(axes), "kw": [], "body": [["vmap", "t", f, axes, n, [["p", i] for i in range(len(axes))]]], "ret": ["sum", ["v", "t"]]}
        meta = {"f": f, "axes": axes, "n": n}
    else:
        ft, ff, aex = st[3:6]
        k = len(aex)
        main = {"np": k + 1, "kw": [], "body": [["cond", "t", ["gt", ["p", 0], 0.0], ft, ff, [["p", i + 1] for i in range(k)]]], "ret": ["v", "t"]}
        meta = {"ft": ft, "ff": ff}
    order = [n for n in prog["order"] if n != "main"] + ["main"]
    return {"fns": {**fns, "main": main}, "order": order, "main": "main"}, meta


def top_gf(rprog, meta, top):
    import jax.numpy as jnp
    from genjax import Cond, Scan, const

    built = modelir.build(rprog, all_fns=True)
    if top == "scan":
        return Scan(built[meta["f"]], length=const(meta["L"])), (lambda a: (a[0], a[1]))
    if top == "vmap":
        axes = meta["axes"]
        vf = built[meta["f"]].vmap(in_axes=tuple(axes), axis_size=meta["n"] if all(x is None for x in axes) else None)
        return vf, (lambda a: tuple(a))
    return Cond(built[meta["ft"]], built[meta["ff"]]), (lambda a: (jnp.asarray(a[0] > 0.0),) + tuple(a[1:]))


def classify_top(case):
    import jax.numpy as jnp
    from genjax import seed

    top = case["top"]
    rprog, meta = top_wrapper(case)
    F = f"top_{top}+" + feat(rprog)
    fails, info = [], {"features": F, "top": top}
    ref = refmodel.Ref(rprog)
    gf, conv = impl(top_gf, rprog, meta, top)
    a0 = {"args": case["top_args"], "kwargs": {}}
    a1 = {"args": case["top_new_args"], "kwargs": {}}
    rargs0, _ = gfi.ref_args(a0)
    rargs1, _ = gfi.ref_args(a1)
    j0 = conv([jnp.asarray(x, dtype=jnp.float32) for x in case["top_args"]])
    j1 = conv([jnp.asarray(x, dtype=jnp.float32) for x in case["top_new_args"]])
    rng = np.random.default_rng(case["key"])
    wrap = lambda ch: {"t": ch}  # noqa: E731
    try:
        tr0 = impl(seed(gf.simulate), env.key(case["key"], 1), *j0)
        ch0 = wrap(gfi.to_np(impl(tr0.get_choices)))
    except ImplError as e:
        return [(f"setup_raises:{e.sig()}|{F}", str(e))], info
    r0 = ref.score(rargs0, {}, ch0)
    paths = sorted(refmodel.flat_leaves(ch0))
    S = [tuple(p) for p in case["upd_subset"] if tuple(p) in paths]
    ch_new, _ = ref.sample(rargs1, {}, rng, given=without(ch0, set(S)))
    ch_new = cast_like(ch_new, ch0)
    r1 = ref.score(rargs1, {}, ch_new)
    p0, p1 = preds_of(ref, rargs0, {}, ch0), preds_of(ref, rargs1, {}, ch_new)
    flip = "flip" if [a for a, b in zip(p0, p1) if a[2] != b[2]] else "noflip"
    info.update({"flip": flip, "n_constrained": len(S), "args_changed": case["top_args"] != case["top_new_args"], "finite": bool(np.isfinite(r1["logp"]))})
    C = f"{flip}|{F}"
    cons = modelir.to_jnp(constraint_map(ch_new, S))["t"] if S else None
    try:
        tr1, w, disc = impl(gf.update, tr0, cons, *j1)
        ch1 = wrap(gfi.to_np(impl(tr1.get_choices)))
        score1 = float(np.asarray(impl(tr1.get_score)))
    except ImplError as e:
        return [(f"update_raises:{e.sig()}:{C}", f"constraints {S}: {e}")], info
    f1, fn, f0 = refmodel.flat_leaves(ch1), refmodel.flat_leaves(ch_new), refmodel.flat_leaves(ch0)
    if top == "cond" and flip == "flip":
        # a Cond trace updated directly with a switched condition and no enclosing function: unconstrained addresses are
        # compared with the reference only when constrained (the hidden-branch value is not visible to the oracle)
        pass
    for p in paths:
        if p in f1 and p in S and not gfi.bit_equal(f1[p], fn[p]):
            fails.append((f"constrained_value_not_installed:{C}", f"{'/'.join(p)}"))
            break
        if p in f1 and p not in S and not gfi.bit_equal(f1[p], f0[p]):
            fails.append((f"unconstrained_value_changed:{C}", f"{'/'.join(p)}: {f0[p].tolist()} -> {f1[p].tolist()}"))
            break
    if not fails and np.isfinite(r1["logp"]):
        if not gfi.close(score1, -r1["logp"], r1["mag"]):
            fails.append((f"update.score:{C}", f"score {score1} != -reference log density {-r1['logp']} under the new arguments"))
        want = r1["logp"] - r0["logp"]
        if not gfi.close(float(np.asarray(w)), want, r0["mag"] + r1["mag"]):
            fails.append((f"weight:{C}", f"update weight {float(np.asarray(w))} != {want}"))
    fails += stored_args_check(tr1, j1, {}, C)
    if not fails and np.isfinite(r1["logp"]):
        try:
            tr2, w2, _ = impl(gf.update, tr1, disc, *j0)
            f2 = refmodel.flat_leaves(wrap(gfi.to_np(tr2.get_choices())))
            if any(not gfi.bit_equal(f2[p], f0[p]) for p in f0):
                fails.append((f"roundtrip_choices:{C}", "update back with the discard does not restore the choices"))
            elif not gfi.close(float(np.asarray(w2)), -(r1["logp"] - r0["logp"]), r0["mag"] + r1["mag"]):
                fails.append((f"roundtrip_weight:{C}", f"{float(np.asarray(w2))} != {-(r1['logp'] - r0['logp'])}"))
            fails += stored_args_check(tr2, j0, {}, C)
        except ImplError as e:
            fails.append((f"roundtrip_raises:{e.sig()}:{C}", str(e)))
    return fails, info


def top_cases():
    from hypothesis import strategies as st

    delta = st.sampled_from([0.0, 0.25, -0.5, 1.0, -1.5])

    @st.composite
    def _c(draw):
        top = draw(st.sampled_from(["scan", "scan", "vmap", "cond"]))
        p = draw(modelir.programs(discrete=draw(st.booleans()), force=top, kwargs=False))
        st_ = next((s for s in p["prog"]["fns"]["main"]["body"] if s[0] == top), None)
        if st_ is None:
            top, p = "scan", draw(modelir.programs(force="scan", kwargs=False))
            st_ = next(s for s in p["prog"]["fns"]["main"]["body"] if s[0] == "scan")
        fc = lambda: round(draw(modelir.fconst), 2)  # noqa: E731
        if top == "scan":
            args = [fc(), [fc() for _ in range(st_[3])]]
        elif top == "vmap":
            args = [[fc() for _ in range(st_[4])] if ax == 0 else fc() for ax in st_[3]]
        else:
            args = [draw(st.sampled_from([-1.0, 1.0]))] + [fc() for _ in st_[5]]

        def perturb(a):
            return [round(x + draw(delta), 2) for x in a] if isinstance(a, list) else round(a + draw(delta), 2)

        new_args = [perturb(a) for a in args]
        if top == "cond":
            new_args[0] = args[0]  # the top-level condition is kept (a switched top-level Cond has no visible old value)
        case = {**p, "top": top, "top_args": args, "top_new_args": new_args, "key": draw(st.integers(0, 2**30))}
        rprog, _ = top_wrapper(case)
        ra, _ = gfi.ref_args({"args": args, "kwargs": {}})
        paths = sorted(refmodel.Ref(rprog).leaf_info(ra, {}))
        case["upd_subset"] = [list(q) for q in draw(st.lists(st.sampled_from(paths), unique=True, max_size=len(paths)))]
        return case

    return _c()
