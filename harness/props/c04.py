"""C04 - regenerate resamples exactly the selection and returns the MH weight; defined for every program/selection."""
import numpy as np

from harness import env, gfi, lawtest, modelir, refmodel, selref
from harness.engine import ImplError, drive, impl
from harness.plans import plan
from harness.props.c01 import feat
from harness.props.c02 import constraint_map
from harness.props.c03 import preds_of

ID = "C04"


def st_selection(paths):
    from hypothesis import strategies as st

    tops = sorted({p[0] for p in paths})
    prefixes = sorted({p[:k] for p in paths for k in range(1, len(p) + 1)})
    atoms = [["none"], ["all"]] + [["str", a] for a in tops] + [["tup", list(q)] for q in prefixes]
    for p in paths:
        if len(p) >= 2:
            atoms.append(["dict", {p[0]: ["str", p[1]]}])
            atoms.append(["dict", {p[0]: ["tup", list(p[1:])]}])
            atoms.append(["dict", {p[0]: ["all"]}])
    atom = st.sampled_from(atoms)
    return st.recursive(atom, lambda ch: st.one_of(
        st.tuples(st.just("not"), ch).map(list),
        st.tuples(st.sampled_from(["or", "and"]), ch, ch).map(list)), max_leaves=4)


def under(path, prefixes):
    return any(path[: len(q)] == q for q in prefixes)


def classify(case, ctx=None, n1=400, do_law=True):
    import jax
    from genjax import seed

    prog = case["prog"]
    F = feat(prog)
    fails, info = [], {"features": F}
    ref = refmodel.Ref(prog)
    rargs0, rkw0 = gfi.ref_args(case)
    jargs0, jkw0 = modelir.jargs(case)
    new_case = {"args": case["new_args"], "kwargs": case["new_kwargs"]}
    rargs1, rkw1 = gfi.ref_args(new_case)
    jargs1, jkw1 = modelir.jargs(new_case)
    gf = impl(modelir.build, prog)
    rng = np.random.default_rng(case["key"])
    ch_ref, _ = ref.sample(rargs0, rkw0, rng)
    S0 = [tuple(p) for p in case["gen_subset"] if refmodel.has_path(ch_ref, tuple(p))]
    try:
        tr0, _ = impl(seed(gf.generate), env.key(case["key"], 1), modelir.to_jnp(constraint_map(ch_ref, S0)) if S0 else None, *jargs0, **jkw0)
        ch0 = gfi.to_np(impl(tr0.get_choices))
    except ImplError as e:
        return [(f"setup_generate_raises:{e.sig()}|{F}", str(e))], info
    r0 = ref.score(rargs0, rkw0, ch0)
    f0 = refmodel.flat_leaves(ch0)
    paths = sorted(f0)
    expr = case["sel"]
    gsel = selref.to_genjax(expr)
    selected = [p for p in paths if selref.selected(expr, p)]
    unselected = [p for p in paths if p not in selected]
    kind = "none" if not selected else ("all" if not unselected else "proper")
    args_changed = (case["new_args"] != case["args"]) or (case["new_kwargs"] != case["kwargs"])
    info.update({"selection": selref.show(expr), "sel_kind": kind, "n_selected": len(selected), "args_changed": args_changed})
    reaches = sorted({k for p in selected if len(p) > 1 or np.ndim(f0[p]) > 0 for k in ("into_subcall",)})
    info["reaches_into_subcall"] = bool(reaches)
    p_old = preds_of(ref, rargs0, rkw0, ch0)
    C = f"{kind}|{F}"
    dists = {p: d[0] for p, d in ref.leaf_info(rargs0, rkw0).items()}

    results = []
    for i in range(3):
        try:
            tr1, w, disc = impl(seed(gf.regenerate), env.key(case["key"], 2, i), tr0, gsel, *jargs1, **jkw1)
            ch1 = gfi.to_np(impl(tr1.get_choices))
            results.append((tr1, float(np.asarray(w)), disc, ch1))
        except ImplError as e:
            return fails + [(f"regenerate_raises:{e.sig()}:{C}", f"selection {selref.show(expr)} (selects {selected}): {e}")], info
    stale_votes = {}
    for i, (tr1, w, disc, ch1) in enumerate(results):
        f1 = refmodel.flat_leaves(ch1)
        if set(f1) != set(f0):
            fails.append((f"address_set_changed:{C}", f"{sorted(set(f1) ^ set(f0))}"))
            break
        try:
            r1 = ref.score(rargs1, rkw1, ch1)
        except Exception as e:  # noqa: BLE001
            fails.append((f"new_choices_unreadable:{C}", f"{type(e).__name__}: {e}"))
            break
        p_new = preds_of(ref, rargs1, rkw1, ch1)
        flipped = [a[0] for a, b in zip(p_old, p_new) if a[:2] == b[:2] and a[2] != b[2]] if len(p_old) == len(p_new) else [()]
        info["flip"] = info.get("flip", False) or bool(flipped)
        if np.isfinite(r1["logp"]):
            f2, _ = gfi.coherent(gf, ref, tr1, rargs1, rkw1, jargs1, jkw1, tag="regenerate")
            fails += [(f"{b}:{C}", m) for b, m in f2]
        for p in unselected:
            if under(p, flipped):
                continue  # inside a Cond whose branch switched: outside the claim (see DESIGN.md C04)
            if not gfi.bit_equal(f1[p], f0[p]):
                fails.append((f"unselected_changed:{C}", f"{selref.show(expr)}: unselected {'/'.join(p)} changed from {f0[p].tolist()} to {f1[p].tolist()}"))
                break
        for p in selected:
            if dists.get(p) in refmodel.CONTINUOUS and np.any(np.asarray(f1[p]) == np.asarray(f0[p])) and not under(p, flipped):
                stale_votes[p] = stale_votes.get(p, 0) + 1
        if not flipped and np.isfinite(r1["logp"]) and np.isfinite(r0["logp"]):
            want = sum(float(np.sum(r1["site"][p]) - np.sum(r0["site"][p])) for p in unselected)
            if not gfi.close(w, want, r0["mag"] + r1["mag"]):
                fails.append((f"weight:{C}", f"{selref.show(expr)}: weight {w} != [log p(new)-log p(old)] - [log prior(selected new) - log prior(selected old)] = {want}"))
            if kind == "all" and not gfi.close(w, 0.0, r0["mag"] + r1["mag"]):
                fails.append((f"weight_everything_selected:{C}", f"weight {w} != 0"))
        if kind == "none" and not args_changed:
            if w != 0.0 and not gfi.close(w, 0.0, 0.0):
                fails.append((f"weight_empty_selection:{C}", f"weight {w} != 0 for the empty selection with unchanged arguments"))
        # discard: old values of exactly the resampled addresses
        fd = refmodel.flat_leaves(gfi.to_np(disc)) if isinstance(disc, dict) else ({(): np.asarray(disc)} if disc is not None else {})
        fd = {p: v for p, v in fd.items() if v is not None}
        for p in selected:
            if under(p, flipped):
                continue
            if p not in fd:
                fails.append((f"discard_missing:{C}", f"{selref.show(expr)}: resampled address {'/'.join(p)} not in discard (has {sorted(fd)})"))
                break
            if not gfi.bit_equal(np.asarray(fd[p]), f0[p]):
                fails.append((f"discard_value:{C}", f"{selref.show(expr)}: discard at {'/'.join(p)} is {np.asarray(fd[p]).tolist()}, old value was {f0[p].tolist()}"))
                break
        extra = [p for p in fd if p in f0 and p not in selected]
        if extra and not flipped:
            fails.append((f"discard_extra:{C}", f"{selref.show(expr)}: discard contains unselected addresses {extra}"))
        if fails:
            break
    stale = [p for p, v in stale_votes.items() if v >= 2]
    if stale:
        fails.append((f"selected_not_resampled:{C}", f"{selref.show(expr)}: selected continuous {['/'.join(p) for p in stale]} kept (some of) their old values under >= 2 of 3 keys"))

    if do_law and not fails and selected:
        fixed = refmodel.nest({p: f0[p] for p in unselected}) if unselected else None
        has_cond = "cond" in F
        old_site = {p: float(np.sum(r0["site"][p])) for p in unselected}

        def wref(r):
            return sum(float(np.sum(r["site"][p])) - old_site[p] for p in unselected)

        def one(k):
            t, ww, _ = seed(gf.regenerate)(k, tr0, gsel, *jargs1, **jkw1)
            return t.get_choices(), t.get_score(), t.get_retval(), ww

        bs = jax.jit(jax.vmap(one))

        def draw(n, stage):
            keys = jax.random.split(env.key(case["key"], 10 + stage), n)
            ch, sc, rv, ww = impl(bs, keys)
            return gfi.to_np(ch), np.asarray(sc), np.asarray(rv), np.asarray(ww)

        def switched(ch):
            try:
                pn = preds_of(ref, rargs1, rkw1, ch)
            except Exception:  # noqa: BLE001
                return False
            return len(pn) != len(p_old) or any(a[:2] == b[:2] and a[2] != b[2] for a, b in zip(p_old, pn))

        try:
            f3, li = lawtest.check_law(ctx, prog, ref, rargs1, rkw1, draw, n1, F, case["key"], fixed=fixed, fixed_paths=unselected,
                                       extra_name="weight", extra_ref=None if has_cond else wref, tag="law", switch_probe=switched)
            fails += [(b.replace("|", f":{kind}|", 1), m) for b, m in f3]
            info.update(li)
        except ImplError as e:
            fails.append((f"regenerate_batch_raises:{e.sig()}:{C}", str(e)))
    return fails, info


def cases(discrete, force=None):
    from hypothesis import strategies as st

    delta = st.sampled_from([0.0, 0.0, 0.0, 0.25, -0.5, 1.0])

    @st.composite
    def _c(draw):
        p = draw(modelir.programs(discrete=discrete, force=force))
        ref = refmodel.Ref(p["prog"])
        paths = sorted(ref.leaf_info(*gfi.ref_args(p)))
        sub = st.lists(st.sampled_from(paths), unique=True, max_size=len(paths))
        change = draw(st.booleans())
        new_args = [round(a + (draw(delta) if change else 0.0), 2) for a in p["args"]]
        new_kw = {k: round(v + (draw(delta) if change else 0.0), 2) for k, v in p["kwargs"].items()}
        return {**p, "key": draw(st.integers(0, 2**30)), "discrete": discrete, "gen_subset": [list(q) for q in draw(sub)],
                "sel": draw(st_selection(paths)), "new_args": new_args, "new_kwargs": new_kw}

    return _c()


def run_shard(ctx):
    P = plan(ctx)

    def one(case):
        env.reset()
        fails, info = classify(case, ctx, P["n1"])
        fs = modelir.features(case["prog"])
        nt = info.get("sel_kind") == "proper" or bool(fs & {"scan", "vmap", "vdist", "nest"})
        cls = [f"C04.sel_{info.get('sel_kind')}", f"C04.args_{'changed' if info.get('args_changed') else 'same'}"] + [f"C04.prog_with_{f}" for f in sorted(fs)]
        if info.get("reaches_into_subcall"):
            cls.append("C04.selection_reaches_into_subcall")
        if info.get("flip"):
            cls.append("C04.move_flipped_a_cond(weight_not_asserted)")
        if selref.n_connectives(case["sel"]):
            cls.append("C04.sel_with_connective")
        cls.append(f"C04.law_{info.get('law', 'none')}")
        ctx.case(case, nt, cls, sample={"program": case["prog"], "args": case["args"], "new_args": case["new_args"], "info": info})
        for b, w in fails:
            ctx.fail(b, w, case)

    n = P["n_cases"]
    forces = ["scan", "vmap", "indicator", "cond", "vdist", "call", "condm", "detcall"]
    drive(ctx, cases(False, forces[ctx.shard % len(forces)]), n - n // 3, one, "cont")
    drive(ctx, cases(True, forces[(ctx.shard + 1) % len(forces)]), n // 3, one, "disc")
    nk = modelir.NEST_KINDS  # combinators applied directly to combinators
    drive(ctx, cases(ctx.shard % 3 == 2, nk[ctx.shard % len(nk)]), P.get("n_nest", max(2, n // 3)), one, "nest")


def replay(case):
    return classify(case, None, 400)[0]
