"""C13 - distributions: documented parameterisation, normalised density, matching sampler (scipy reference table)."""
import math

import numpy as np
from scipy import special as sp
from scipy import stats as ss

from harness import env, stats
from harness.engine import ImplError, drive, impl
from harness.plans import plan

ID = "C13"


def sig(x):
    return 1.0 / (1.0 + math.exp(-x))


# name -> dict(params=strategy-name list, args=f(p)->positional args, kw=f(p)->kwargs (alternative call) or None,
#              ref=f(p)->scipy frozen, kind 'c'|'d', dtype, lo (support lower bound for discrete))
def table():
    T = {}

    def add(name, pspec, args, ref, kind, dtype, kw=None, note=""):
        T[name] = {"pspec": pspec, "args": args, "ref": ref, "kind": kind, "dtype": dtype, "kw": kw, "note": note}

    add("normal", ["loc", "pos"], lambda p: p, lambda p: ss.norm(p[0], p[1]), "c", "float32", kw=lambda p: {"loc": p[0], "scale": p[1]})
    add("uniform", ["loc", "pos"], lambda p: [p[0], p[0] + p[1]], lambda p: ss.uniform(p[0], p[1]), "c", "float32", kw=lambda p: {"low": p[0], "high": p[0] + p[1]})
    add("exponential", ["pos"], lambda p: p, lambda p: ss.expon(scale=1.0 / p[0]), "c", "float32", kw=lambda p: {"rate": p[0]}, note="rate")
    add("beta", ["pos", "pos"], lambda p: p, lambda p: ss.beta(p[0], p[1]), "c", "float32")
    add("gamma", ["pos", "pos"], lambda p: p, lambda p: ss.gamma(p[0], scale=1.0 / p[1]), "c", "float32", kw=lambda p: {"concentration": p[0], "rate": p[1]}, note="concentration, rate")
    add("log_normal", ["loc", "pos1"], lambda p: p, lambda p: ss.lognorm(s=p[1], scale=math.exp(p[0])), "c", "float32")
    add("student_t", ["df", "loc", "pos"], lambda p: p, lambda p: ss.t(p[0], p[1], p[2]), "c", "float32")
    add("laplace", ["loc", "pos"], lambda p: p, lambda p: ss.laplace(p[0], p[1]), "c", "float32")
    add("half_normal", ["pos"], lambda p: p, lambda p: ss.halfnorm(scale=p[0]), "c", "float32")
    add("inverse_gamma", ["pos2", "pos"], lambda p: p, lambda p: ss.invgamma(p[0], scale=p[1]), "c", "float32")
    add("weibull", ["pos2", "pos"], lambda p: p, lambda p: ss.weibull_min(p[0], scale=p[1]), "c", "float32")
    add("cauchy", ["loc", "pos"], lambda p: p, lambda p: ss.cauchy(p[0], p[1]), "c", "float32")
    add("chi2", ["df"], lambda p: p, lambda p: ss.chi2(p[0]), "c", "float32")
    add("flip", ["prob"], lambda p: p, lambda p: ss.bernoulli(p[0]), "d", "bool", note="probability -> bool")
    add("bernoulli", ["logit"], lambda p: p, lambda p: ss.bernoulli(sig(p[0])), "d", "int32", kw=lambda p: {"probs": sig(p[0])}, note="first positional = logits")
    add("geometric", ["logit"], lambda p: p, lambda p: ss.geom(sig(p[0]), loc=-1), "d", "float32", kw=lambda p: {"probs": sig(p[0])}, note="failures before first success")
    add("poisson", ["rate"], lambda p: p, lambda p: ss.poisson(p[0]), "d", "float32")
    add("binomial", ["count", "logit"], lambda p: [float(p[0]), p[1]], lambda p: ss.binom(int(p[0]), sig(p[1])), "d", "float32", kw=lambda p: {"total_count": float(p[0]), "probs": sig(p[1])})
    add("negative_binomial", ["pos2", "logit"], lambda p: p, lambda p: ss.nbinom(p[0], 1.0 - sig(p[1])), "d", "float32", note="TFP: total_count failures, probs of success")
    add("zipf", ["power"], lambda p: p, lambda p: ss.zipf(p[0]), "d", "int32")
    add("categorical", ["logits"], lambda p: [np.asarray(p[0], dtype=np.float32)], lambda p: ss.rv_discrete(values=(np.arange(len(p[0])), np.exp(np.asarray(p[0]) - sp.logsumexp(p[0])))), "d", "int32", note="logits")
    return T


PSTRAT = {
    "loc": (-5.0, 5.0), "pos": (0.25, 4.0), "pos1": (0.25, 1.5), "pos2": (1.5, 6.0), "df": (2.5, 12.0), "prob": (0.03, 0.97),
    "logit": (-3.0, 3.0), "rate": (0.25, 8.0), "power": (2.0, 4.0),
}
MULTI = ["multivariate_normal", "dirichlet", "multinomial"]
WRAPPED = ["tfp:Logistic", "tfp:Gumbel", "tfp:Pareto", "custom:shifted_exponential"]
MODES = ["sample_shape", "vmap_keys", "modular_vmap", "gen_site", "kwargs", "vmap_mapped_params", "vmap_mapped_kwargs", "vmap_mapped_params_ss"]
SS_K = 5  # per-lane sample_shape of the vmap_mapped_params_ss mode (lanes = n // SS_K, never equal to SS_K)

# Parameters at the edge of the documented domain (deterministic sweep, log density / mass only, plus 'certain' samplers).
# (distribution, positional args, values); references in float64 on the float32-rounded parameters.
EDGE = [
    ("flip", [0.0], [False, True]), ("flip", [1.0], [False, True]), ("flip", [1e-9], [False, True]), ("flip", [1e-4], [False, True]),
    ("flip", [0.9999], [False, True]), ("flip", [0.9999999], [False, True]), ("flip", [3e-8], [False, True]),
    ("bernoulli", [-25.0], [0, 1]), ("bernoulli", [25.0], [0, 1]), ("bernoulli", [-9.0], [0, 1]),
    ("geometric", [-9.0], [0, 1, 50, 1000]), ("geometric", [9.0], [0, 1, 2]),
    ("normal", [-3.0, 1000.0], "q"), ("normal", [0.0, 1e-3], "q"), ("normal", [10.0, 0.05], "q"),
    ("exponential", [1e-3], "q"), ("exponential", [1e3], "q"),
    ("uniform", [-1e-3, 1e-3], "q"), ("uniform", [100.0, 1100.0], "q"),
    ("laplace", [50.0, 0.01], "q"), ("cauchy", [0.0, 0.01], "q"), ("half_normal", [0.01], "q"), ("half_normal", [300.0], "q"),
    ("gamma", [0.05, 1.0], "q"), ("gamma", [60.0, 0.5], "q"), ("gamma", [2.0, 1e3], "q"),
    ("beta", [0.2, 0.3], "q"), ("beta", [40.0, 1.5], "q"),
    ("log_normal", [5.0, 0.05], "q"), ("student_t", [1.0, 0.0, 1.0], "q"), ("student_t", [80.0, 2.0, 0.1], "q"),
    ("inverse_gamma", [20.0, 0.1], "q"), ("weibull", [0.6, 2.0], "q"), ("weibull", [12.0, 0.5], "q"), ("chi2", [0.7], "q"), ("chi2", [60.0], "q"),
    ("poisson", [0.01], [0, 1, 2, 5]), ("poisson", [150.0], [100, 150, 151, 220]),
    ("binomial", [60.0, -4.0], [0, 1, 5, 60]), ("binomial", [1.0, 2.0], [0, 1]), ("binomial", [40.0, 4.0], [30, 39, 40]),
    ("negative_binomial", [0.3, -2.0], [0, 1, 7]), ("negative_binomial", [30.0, 1.5], [20, 100, 160]),
    ("zipf", [1.2], [1, 2, 50]), ("zipf", [8.0], [1, 2, 3]),
    ("categorical", [[0.0, -30.0, -30.0]], [0, 1, 2]), ("categorical", [[12.0, -12.0, 0.0, 0.0]], [0, 1, 2, 3]), ("categorical", [[-1000.0, -1001.0]], [0, 1]),
]


def edge_check(idx):
    """-> (fails, case) for EDGE[idx]."""
    import jax.numpy as jnp
    import genjax
    from genjax import seed

    name, args, vals = EDGE[idx]
    T = table()
    e = T[name]
    case = {"dist": name, "edge": idx, "args": args, "mode": "edge_logpdf"}
    a32 = [np.asarray(a, dtype=np.float32) for a in args]
    # the table's `ref` takes the strategy-level parameters; rebuild them from the positional ones
    ps = [a.astype(np.float64).tolist() if a.ndim else float(a) for a in a32]
    if name == "uniform":
        ps = [ps[0], float(np.float32(args[1])) - ps[0]]
    ref = e["ref"](ps)
    dist = getattr(genjax.distributions, name)
    fails = []
    try:
        if vals == "q":
            qs = np.array([1e-6, 1e-3, 0.1, 0.5, 0.9, 0.999, 1 - 1e-6])
            xs = np.unique(ref.ppf(qs).astype(np.float32))
            xs = xs[np.isfinite(xs)]
            rl = ref.logpdf(xs.astype(np.float64))
            keep = np.isfinite(rl)
            xs, rl = xs[keep], rl[keep]
            jv = jnp.asarray(xs)
        else:
            ks = np.asarray(vals)
            rl = ref.logpmf(ks.astype(np.int64))
            jv = jnp.asarray(ks.astype(bool) if e["dtype"] == "bool" else ks.astype(np.dtype(e["dtype"])))
        lp = np.asarray(impl(dist.logpdf, jv, *[jnp.asarray(a) for a in a32]), dtype=np.float64)
        for i in range(len(rl)):
            if np.isneginf(rl[i]):
                ok = lp[i] < -80  # impossible value: -inf (or the float32 rendering of log 0)
            else:
                ok = np.isfinite(lp[i]) and abs(lp[i] - rl[i]) <= 2e-3 + 3e-4 * abs(rl[i])
            if not ok:
                v = (vals if vals != "q" else xs.tolist())[i]
                fails.append((f"logpdf_edge:{name}", f"{name}{tuple(args)} log density at {v} = {lp[i]:.7g}; the documented parameterisation gives {rl[i]:.7g}"))
                break
        # certain outcomes are always drawn
        if vals != "q" and not fails:
            pm = np.exp(rl)
            if pm.max() > 1 - 1e-6:
                want = np.asarray(vals)[int(np.argmax(pm))]
                x = np.asarray(impl(seed(lambda: dist.sample(*[jnp.asarray(a) for a in a32], sample_shape=(64,))), env.key(77, idx)))
                if not np.all(x.astype(np.float64) == float(want)):
                    fails.append((f"sampler_edge:{name}", f"{name}{tuple(args)} has a certain outcome {want} but the sampler returned {np.unique(x).tolist()}"))
    except ImplError as ex:
        fails.append((f"raises_edge:{ex.sig()}:{name}", f"{name}{tuple(args)}: {ex}"))
    return fails, case


def cases():
    from hypothesis import strategies as st

    T = table()

    def fl(lo, hi):
        return st.floats(lo, hi, allow_nan=False).map(lambda x: float(np.float32(round(x, 3))))

    @st.composite
    def _c(draw):
        name = draw(st.sampled_from(sorted(T) + MULTI + WRAPPED))
        key = draw(st.integers(0, 2**30))
        mode = draw(st.sampled_from(MODES))
        if name in T:
            ps = []
            for s in T[name]["pspec"]:
                if s == "count":
                    ps.append(draw(st.integers(1, 12)))
                elif s == "logits":
                    ps.append([draw(fl(-3, 3)) for _ in range(draw(st.integers(2, 5)))])
                else:
                    ps.append(draw(fl(*PSTRAT[s])))
            return {"dist": name, "params": ps, "mode": mode, "key": key}
        if name == "multivariate_normal":
            d = draw(st.integers(1, 3))
            B = [[draw(fl(-1, 1)) for _ in range(d)] for _ in range(d)]
            return {"dist": name, "params": [[draw(fl(-3, 3)) for _ in range(d)], B, draw(st.sampled_from([0.2, 0.5, 1.0])), draw(st.sampled_from([1.0, 1.0, 1e-4, 1e-6, 1e3]))], "mode": mode, "key": key}
        if name == "dirichlet":
            return {"dist": name, "params": [[draw(fl(0.5, 5.0)) for _ in range(draw(st.integers(2, 4)))]], "mode": mode, "key": key}
        if name == "multinomial":
            return {"dist": name, "params": [draw(st.integers(1, 10)), [draw(fl(-2, 2)) for _ in range(draw(st.integers(2, 4)))]], "mode": mode, "key": key}
        return {"dist": name, "params": [draw(fl(-2, 2)), draw(fl(0.5, 3.0))], "mode": mode, "key": key}

    return _c()


def draw_samples(dist, args, kw, mode, n, key, event_ndim=0):
    """n draws of dist(*args) through the requested use mode -> array with leading axis n."""
    import jax
    import jax.numpy as jnp
    from genjax import gen, modular_vmap, seed

    jargs = [jnp.asarray(a) for a in args]
    if mode == "sample_shape":
        return seed(lambda: dist.sample(*jargs, sample_shape=(n,)))(key)
    if mode == "vmap_keys":
        return jax.jit(jax.vmap(lambda k: seed(lambda: dist.sample(*jargs))(k)))(jax.random.split(key, n))
    if mode == "modular_vmap":
        return seed(modular_vmap(lambda: dist.sample(*jargs), in_axes=(), axis_size=n))(key)
    if mode == "gen_site":
        @gen
        def m():
            return dist(*jargs) @ "x"

        return jax.jit(jax.vmap(lambda k: seed(m.simulate)(k).get_choices()["x"]))(jax.random.split(key, n))
    if mode in ("vmap_mapped_params", "vmap_mapped_kwargs"):
        # every lane gets (a copy of) the same parameters through the mapped axis: n independent draws of one law
        if mode == "vmap_mapped_kwargs" and kw is not None:
            names = sorted(kw)
            tiled = [jnp.broadcast_to(jnp.asarray(kw[k]), (n,) + jnp.shape(jnp.asarray(kw[k]))) for k in names]
            return seed(modular_vmap(lambda *a: dist.sample(**dict(zip(names, a))), in_axes=0))(key, *tiled)
        tiled = [jnp.broadcast_to(a, (n,) + jnp.shape(a)) for a in jargs]
        return seed(modular_vmap(lambda *a: dist.sample(*a), in_axes=0))(key, *tiled)
    if mode == "vmap_mapped_params_ss":
        # lanes x per-lane sample_shape: documented layout (lanes, SS_K) + event; flattened to n draws of one law
        m = n // SS_K
        tiled = [jnp.broadcast_to(a, (m,) + jnp.shape(a)) for a in jargs]
        x = seed(modular_vmap(lambda *a: dist.sample(*a, sample_shape=(SS_K,)), in_axes=0))(key, *tiled)
        if x.shape[:2] != (m, SS_K):
            return x  # wrong layout: reported by the shape test of the caller
        return x.reshape((m * SS_K,) + x.shape[2:])
    if mode == "kwargs":
        if kw is None:
            return seed(lambda: dist.sample(*jargs, sample_shape=(n,)))(key)
        jkw = {k: jnp.asarray(v) for k, v in kw.items()}
        return seed(lambda: dist.sample(sample_shape=(n,), **jkw))(key)
    raise ValueError(mode)


def classify(case, ctx=None, n1=4000):
    import jax.numpy as jnp
    import genjax
    from genjax.core import distribution, tfp_distribution
    from tensorflow_probability.substrates import jax as tfp

    tfd = tfp.distributions
    name, ps, mode = case["dist"], case["params"], case["mode"]
    C = f"{name}:{mode}"
    fails, info = [], {"dist": name, "mode": mode}
    c = ctx if ctx is not None else type("C", (), {"stat_tests": 0, "stat_stage2": 0})()
    key = env.key(case["key"], 0)
    T = table()

    def sample_test(dist, args, kw, cdf=None, pmf=None, lo=0, transform=None, want_dtype=None, event_shape=()):
        def pfun(n, stage):
            if mode == "vmap_mapped_params_ss":
                n = (n // SS_K) * SS_K + (SS_K if (n // SS_K) == SS_K else 0)
            x = np.asarray(impl(draw_samples, dist, args, kw, mode, n, env.key(case["key"], stage)))
            if x.shape != (n,) + tuple(event_shape):
                return 0.0, {"shape": list(x.shape), "want": [n] + list(event_shape)}
            if want_dtype and str(x.dtype) != want_dtype:
                return 0.0, {"dtype": str(x.dtype), "want": want_dtype}
            if transform:
                return transform(x)
            if cdf is not None:
                return stats.ks_cdf_p(x.astype(np.float64), cdf), {"n": n}
            xi = x.astype(np.int64)
            hi = int(xi.max()) + 1
            ks = np.arange(lo, max(hi, lo + 2))
            probs = pmf(ks)
            counts = np.array([(xi == k).sum() for k in ks], dtype=float)
            rest = max(0.0, 1.0 - probs.sum())
            return stats.chi2_p(np.append(counts, n - counts.sum()), np.append(probs, rest))

        return stats.two_stage(c, pfun, n1)

    try:
        if name in T:
            e = T[name]
            dist = getattr(genjax.distributions, name)
            args = e["args"](ps)
            ref = e["ref"](ps)
            kw = e["kw"](ps) if e["kw"] else None
            if e["kind"] == "c":
                a, b = ref.ppf(1e-4), ref.ppf(1 - 1e-4)
                xs = np.linspace(a, b, 2001)
                xs32 = xs.astype(np.float32)
                lp = np.asarray(impl(dist.logpdf, jnp.asarray(xs32), *[jnp.asarray(np.float32(v)) for v in args]), dtype=np.float64)
                rl = ref.logpdf(xs32.astype(np.float64))
                bad = np.abs(lp - rl) > 3e-4 + 3e-5 * np.abs(rl) + 2e-4 * np.abs(xs)
                if bad.any():
                    i = int(np.argmax(np.abs(lp - rl)))
                    fails.append((f"logpdf:{name}", f"{name}{tuple(args)} logpdf({xs[i]:.5g}) = {lp[i]:.6g}, reference density of the documented parameterisation gives {rl[i]:.6g}"))
                # mass of exp(logpdf) cell by cell, each cell measured in the reference's probability scale (robust to
                # integrable singularities such as beta/gamma with shape < 1, where a plain trapezoid rule diverges)
                mid = ((xs[:-1] + xs[1:]) / 2).astype(np.float32)
                lpm = np.asarray(impl(dist.logpdf, jnp.asarray(mid), *[jnp.asarray(np.float32(v)) for v in args]), dtype=np.float64)
                cell = np.diff(ref.cdf(xs))
                mass = float(np.sum(cell * np.exp(lpm - ref.logpdf(mid.astype(np.float64)))))
                want = float(ref.cdf(b) - ref.cdf(a))
                if abs(mass - want) > 2e-3:
                    fails.append((f"normalisation:{name}", f"integral of exp(logpdf) over the central interval = {mass}, should be {want}"))
                if kw is not None:
                    lp2 = np.asarray(impl(dist.logpdf, jnp.asarray(xs32[::200]), **{k: jnp.asarray(np.float32(v)) for k, v in kw.items()}), dtype=np.float64)
                    if np.any(np.abs(lp2 - rl[::200]) > 3e-4 + 3e-5 * np.abs(rl[::200]) + 2e-4 * np.abs(xs[::200])):
                        fails.append((f"logpdf_kwargs:{name}", f"{name}(**{kw}) differs from the reference"))
                if not fails:
                    heavy = name in ("cauchy", "student_t", "inverse_gamma", "log_normal")
                    res = sample_test(dist, args, kw, cdf=ref.cdf, want_dtype=e["dtype"])
                    if res:
                        fails.append((f"sampler:{C}", f"{name}{tuple(args)} draws via {mode} do not follow the reference cdf: {res}"))
                    info["heavy_tail"] = heavy
            else:
                lo = int(ref.support()[0])
                hi = int(min(ref.ppf(1 - 1e-7), lo + 400)) if np.isfinite(ref.ppf(1 - 1e-7)) else lo + 400
                ks = np.arange(lo, hi + 1)
                vals = ks.astype(bool) if e["dtype"] == "bool" else ks.astype(np.dtype(e["dtype"]))
                lp = np.asarray(impl(dist.logpdf, jnp.asarray(vals), *[jnp.asarray(v) for v in args]), dtype=np.float64)
                rl = ref.logpmf(ks)
                fin = np.isfinite(rl) & (rl > -60)
                if np.any(np.abs(lp[fin] - rl[fin]) > 3e-4 + 5e-5 * np.abs(rl[fin])):
                    i = int(np.argmax(np.where(fin, np.abs(lp - rl), 0)))
                    fails.append((f"logpdf:{name}", f"{name}{tuple(args)} log mass at {ks[i]} = {lp[i]:.6g}, the documented parameterisation gives {rl[i]:.6g}"))
                tot = float(np.exp(lp[np.isfinite(lp)]).sum())
                want = float(np.exp(rl).sum())
                if abs(tot - want) > 5e-4:
                    fails.append((f"normalisation:{name}", f"sum of exp(logpdf) over the support = {tot}, should be {want}"))
                if kw is not None and not fails:
                    lp2 = np.asarray(impl(dist.logpdf, jnp.asarray(vals[:6]), **{k: jnp.asarray(v) for k, v in kw.items()}), dtype=np.float64)
                    if np.any(np.abs(lp2 - rl[:6])[np.isfinite(rl[:6])] > 3e-4 + 5e-5 * np.abs(rl[:6][np.isfinite(rl[:6])])):
                        fails.append((f"logpdf_kwargs:{name}", f"{name}(**{kw}) differs from the reference"))
                if not fails:
                    res = sample_test(dist, args, kw, pmf=ref.pmf, lo=lo, want_dtype=e["dtype"])
                    if res:
                        fails.append((f"sampler:{C}", f"{name}{tuple(args)} draws via {mode} do not follow the reference pmf: {res}"))
        elif name == "multivariate_normal":
            mu, B, lam = np.asarray(ps[0], dtype=np.float32), np.asarray(ps[1]), ps[2]
            cscale = float(ps[3]) if len(ps) > 3 else 1.0  # covariance scale: the matrix *is* the covariance also when it is tiny / huge
            if cscale < 1e-2:
                mu = np.zeros_like(mu)  # keep |x| comparable to the standard deviations (float32 resolution of x)
            cov = (cscale * (B @ B.T + lam * np.eye(len(mu)))).astype(np.float32)
            info["cov_scale"] = cscale
            ref = ss.multivariate_normal(mu.astype(np.float64), cov.astype(np.float64))
            xs = ref.rvs(size=50, random_state=case["key"] % 2**31).reshape(50, len(mu)).astype(np.float32)
            lp = np.asarray(impl(genjax.multivariate_normal.logpdf, jnp.asarray(xs), jnp.asarray(mu), jnp.asarray(cov)), dtype=np.float64)
            rl = ref.logpdf(xs.astype(np.float64))
            if np.any(np.abs(lp - rl) > 2e-3 + 1e-4 * np.abs(rl)):
                fails.append((f"logpdf:{name}", f"multivariate_normal(loc, covariance) logpdf {lp[:2]} != reference with the matrix as covariance {rl[:2]}"))
            L = np.linalg.cholesky(cov.astype(np.float64))

            def tr(x):
                z = np.linalg.solve(L, (x.astype(np.float64) - mu).T).T
                p = min(stats.ks_cdf_p(z[:, j], ss.norm.cdf) for j in range(z.shape[1])) * z.shape[1]
                return min(1.0, p), {"whitened": True}

            if not fails:
                res = sample_test(genjax.multivariate_normal, [mu, cov], {"loc": mu, "covariance_matrix": cov}, transform=tr, want_dtype="float32", event_shape=(len(mu),))
                if res:
                    fails.append((f"sampler:{C}", f"multivariate_normal draws, whitened with the covariance, are not standard normal: {res}"))
        elif name == "dirichlet":
            a = np.asarray(ps[0], dtype=np.float32)
            ref = ss.dirichlet(a.astype(np.float64))
            xs = ref.rvs(size=30, random_state=case["key"] % 2**31)
            xs = np.clip(xs, 1e-3, None)
            xs = (xs / xs.sum(axis=1, keepdims=True)).astype(np.float32)
            lp = np.asarray(impl(genjax.dirichlet.logpdf, jnp.asarray(xs), jnp.asarray(a)), dtype=np.float64)
            rl = np.array([sp.gammaln(a.sum()) - sp.gammaln(a).sum() + ((a - 1) * np.log(x.astype(np.float64))).sum() for x in xs])
            if np.any(np.abs(lp - rl) > 2e-3 + 1e-4 * np.abs(rl)):
                fails.append((f"logpdf:{name}", f"dirichlet logpdf {lp[:2]} != reference {rl[:2]}"))

            def tr(x):
                x = x.astype(np.float64)
                if np.any(np.abs(x.sum(axis=1) - 1) > 1e-4):
                    return 0.0, {"not_on_simplex": True}
                p = min(stats.ks_cdf_p(x[:, j], ss.beta(a[j], a.sum() - a[j]).cdf) for j in range(len(a))) * len(a)
                return min(1.0, p), {}

            if not fails:
                res = sample_test(genjax.dirichlet, [a], {"concentration": a}, transform=tr, want_dtype="float32", event_shape=(len(a),))
                if res:
                    fails.append((f"sampler:{C}", f"dirichlet marginals: {res}"))
        elif name == "multinomial":
            n, lg = ps[0], np.asarray(ps[1], dtype=np.float32)
            pr = np.exp(lg.astype(np.float64) - sp.logsumexp(lg.astype(np.float64)))
            ref = ss.multinomial(n, pr)
            xs = ref.rvs(size=20, random_state=case["key"] % 2**31).astype(np.float32)
            lp = np.asarray(impl(genjax.multinomial.logpdf, jnp.asarray(xs), jnp.asarray(np.float32(n)), jnp.asarray(lg)), dtype=np.float64)
            rl = ref.logpmf(xs)
            if np.any(np.abs(lp - rl) > 2e-3 + 1e-4 * np.abs(rl)):
                fails.append((f"logpdf:{name}", f"multinomial(total_count, logits) log mass {lp[:2]} != reference {rl[:2]}"))

            def tr(x):
                x = x.astype(np.int64)
                if np.any(x.sum(axis=1) != n):
                    return 0.0, {"counts_do_not_sum_to_total": True}
                ps_ = []
                for j in range(len(pr)):
                    cnt = np.bincount(x[:, j], minlength=n + 1)[: n + 1]
                    ps_.append(stats.chi2_p(cnt, ss.binom(n, pr[j]).pmf(np.arange(n + 1)))[0])
                return min(1.0, min(ps_) * len(pr)), {}

            if not fails:
                res = sample_test(genjax.multinomial, [np.float32(n), lg], {"total_count": np.float32(n), "logits": lg}, transform=tr, event_shape=(len(lg),))
                if res:
                    fails.append((f"sampler:{C}", f"multinomial marginals: {res}"))
        else:  # user-wrapped distributions
            loc, scale = float(np.float32(ps[0])), float(np.float32(ps[1]))
            if name == "tfp:Logistic":
                dist, ref, args = tfp_distribution(tfd.Logistic, name="logistic"), ss.logistic(loc, scale), [loc, scale]
            elif name == "tfp:Gumbel":
                dist, ref, args = tfp_distribution(tfd.Gumbel, name="gumbel"), ss.gumbel_r(loc, scale), [loc, scale]
            elif name == "tfp:Pareto":
                conc = scale + 1.0
                dist, ref, args = tfp_distribution(lambda c_, s_: tfd.Pareto(c_, s_), name="pareto"), ss.pareto(conc, scale=scale), [conc, scale]
            else:
                from genjax.pjax import wrap_logpdf, wrap_sampler
                import jax

                def sampler(key, loc_, rate_, sample_shape=()):
                    return loc_ + jax.random.exponential(key, shape=tuple(sample_shape) + jnp.shape(loc_)) / rate_

                def logpdf(v, loc_, rate_):
                    return jnp.where(v >= loc_, jnp.log(rate_) - rate_ * (v - loc_), -jnp.inf)

                dist = distribution(wrap_sampler(sampler, name="shifted_exponential"), wrap_logpdf(logpdf), name="shifted_exponential")
                ref, args = ss.expon(loc=loc, scale=1.0 / scale), [loc, scale]
            a, b = ref.ppf(1e-4), ref.ppf(1 - 1e-4)
            xs = np.linspace(a, b, 801).astype(np.float32)
            lp = np.asarray(impl(dist.logpdf, jnp.asarray(xs), *[jnp.asarray(np.float32(v)) for v in args]), dtype=np.float64)
            rl = ref.logpdf(xs.astype(np.float64))
            ok = np.isfinite(rl)
            if np.any(np.abs(lp[ok] - rl[ok]) > 5e-4 + 5e-5 * np.abs(rl[ok]) + 2e-4 * np.abs(xs[ok])):
                fails.append((f"logpdf:{name}", f"wrapped {name}{tuple(args)} logpdf differs from reference"))
            if not fails:
                res = sample_test(dist, args, None, cdf=ref.cdf, want_dtype="float32")
                if res:
                    fails.append((f"sampler:{C}", f"wrapped {name}{tuple(args)} draws via {mode}: {res}"))
    except ImplError as e:
        fails.append((f"raises:{e.sig()}:{C}", f"{name}{ps} via {mode}: {e}"))
    return fails, info


def run_shard(ctx):
    P = plan(ctx)

    def one(case):
        env.reset()
        fails, info = classify(case, ctx, P["n1"])
        ctx.case(case, True, [f"C13.dist_{case['dist']}", f"C13.mode_{case['mode']}"] + (["C13.mvn_covariance_scale_small"] if info.get("cov_scale", 1.0) < 1e-2 else []), sample=case, key=(case["dist"], case["mode"], case["params"]))
        for b, w in fails:
            ctx.fail(b, w, case)

    drive(ctx, cases(), P["n_cases"], one, "main")
    # parameters at the edge of the documented domain: deterministic sweep, shard-partitioned
    for i in range(len(EDGE)):
        if i % ctx.nshards == ctx.shard:
            env.reset()
            fails, ecase = edge_check(i)
            ctx.case(ecase, True, ["C13.edge_of_domain", f"C13.dist_{ecase['dist']}"], sample=ecase, key=("edge", i))
            for b, w in fails:
                ctx.fail(b, w, ecase)
    # make sure every distribution is visited in every run (one fixed-parameter case each, shard-partitioned)
    names = sorted(table()) + MULTI + WRAPPED
    defaults = {"loc": 0.7, "pos": 1.3, "pos1": 0.6, "pos2": 2.5, "df": 4.5, "prob": 0.3, "logit": -0.8, "rate": 2.5, "power": 2.6, "count": 7,
                "logits": [0.2, -1.0, 1.3]}
    for i, name in enumerate(names):
        if i % ctx.nshards != ctx.shard:
            continue
        if name in table():
            ps = [defaults[s] for s in table()[name]["pspec"]]
        elif name == "multivariate_normal":
            ps = [[0.5, -1.0], [[0.9, 0.2], [-0.4, 0.6]], 0.5, [1.0, 1e-6, 1e-4][ctx.seed % 3]]
        elif name == "dirichlet":
            ps = [[0.8, 2.0, 3.5]]
        elif name == "multinomial":
            ps = [6, [0.3, -0.7, 1.1]]
        else:
            ps = [0.4, 1.7]
        one({"dist": name, "params": ps, "mode": MODES[(i + ctx.seed) % len(MODES)], "key": 1000 + i})


def replay(case):
    if case.get("mode") == "edge_logpdf":
        return edge_check(case["edge"])[0]
    return classify(case, None, 4000)[0]
