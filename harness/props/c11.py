"""C11 - ADEV value and gradient estimators are unbiased (exact for enumeration).

Reference: E[f](theta) by exact enumeration of discrete sites and Gauss-Hermite / Gauss-Legendre quadrature of continuous
ones, in numpy float64; its derivative by Richardson-extrapolated central differences (no AD of any kind in the oracle).
"""
import math

import numpy as np

from harness import env, stats
from harness.engine import ImplError, drive, impl
from harness.plans import plan

ID = "C11"
ENUM = {"flip_enum", "flip_enum_parallel", "categorical_enum_parallel"}
DISC_SF = {"flip_reinforce", "flip_mvd"}
CONT_REPARAM = {"normal_reparam", "uniform_reparam", "mvn_diag_reparam", "mvn_reparam", "normal_reparam_bs", "normal_reparam_bl"}
CONT_SF = {"normal_reinforce", "uniform_reinforce", "mvn_reinforce", "normal_reinforce_bs"}
INF = {"geometric_reinforce"}
BOOL = {"flip_enum", "flip_enum_parallel", "flip_reinforce", "flip_mvd"}
VEC = {"mvn_diag_reparam", "mvn_reparam", "mvn_reinforce", "normal_reparam_bs", "normal_reparam_bl", "normal_reinforce_bs"}
# batched scalar-family sites: *_bs = scalar location, vector scale; *_bl = vector location, scalar scale
BOOLVEC = {"flip_enum_b", "flip_mvd_b"}  # one site, a vector of two probabilities: two Bernoulli lanes (lane-wise estimators)
COV = [[1.0, 0.6], [0.6, 0.7]]  # clearly non-diagonal: L L^T and L^T L differ by 0.25 in the off-diagonal entry


def ev(e, th, vals, xp):
    k = e[0]
    if k == "t":
        return th[e[1]]
    if k == "s":
        v = vals[e[1]]
        return v
    if k == "c":
        return e[1]
    if k == "add":
        return ev(e[1], th, vals, xp) + ev(e[2], th, vals, xp)
    if k == "mul":
        return ev(e[1], th, vals, xp) * ev(e[2], th, vals, xp)
    if k == "tanh":
        return xp.tanh(ev(e[1], th, vals, xp))
    if k == "sin":
        return xp.sin(ev(e[1], th, vals, xp))
    if k == "sq":
        v = ev(e[1], th, vals, xp)
        return v * v
    if k == "num":  # numeric view of a site value (bool/int -> float, vector -> weighted sum)
        v = vals[e[1]]
        if np.ndim(v) > 0 or (hasattr(v, "ndim") and v.ndim > 0):
            v = xp.asarray(v, dtype=xp.float32 if xp is not np else np.float64)
            return v[0] * v[1] - 0.5 * v[1]  # couples the coordinates non-linearly (shared noise across lanes shows up)
        return xp.asarray(v, dtype=xp.float32 if xp is not np else np.float64)
    if k == "where":  # discrete site value selects between two expressions (plain arithmetic selection)
        sel = ev(["num", e[1]], th, vals, xp)
        a, b = ev(e[2], th, vals, xp), ev(e[3], th, vals, xp)
        return xp.where(sel > e[4], a, b)
    if k == "cond":  # lax.cond on a discrete site value or on theta
        sel = ev(e[1], th, vals, xp)
        if xp is np:
            return ev(e[2], th, vals, xp) if sel > e[4] else ev(e[3], th, vals, xp)
        import jax

        return jax.lax.cond(sel > e[4], lambda: ev(e[2], th, vals, xp) * 1.0, lambda: ev(e[3], th, vals, xp) * 1.0)
    raise ValueError(e)


def prob_of(x, xp):
    return 0.05 + 0.9 / (1.0 + xp.exp(-x))


def pos_of(x, xp):
    return 0.3 + xp.log1p(xp.exp(x)) if xp is np else 0.3 + __import__("jax").nn.softplus(x)


# ------------------------------------------------------------------------------------------ reference expectation
QUAD = {
    "hi": (np.polynomial.hermite.hermgauss(40), np.polynomial.hermite.hermgauss(56), np.polynomial.legendre.leggauss(40)),
    "lo": (np.polynomial.hermite.hermgauss(24), np.polynomial.hermite.hermgauss(36), np.polynomial.legendre.leggauss(24)),
}


def expect(prog, th, upto=None, fixed=None, level="hi"):
    """E[f](theta) in float64.  `fixed`: {site index: value} conditions on those site values (used for decoding).
    level: quadrature resolution; the caller compares 'hi' with 'lo' and discards cases where they disagree."""
    GH, GH12, GL = QUAD[level]
    sites, ret = prog["sites"], prog["ret"]
    th = [np.float64(t) for t in th]

    def rec(j, vals):
        if j == len(sites):
            return float(ev(ret, th, vals, np))
        kind, pe = sites[j][0], sites[j][1:]
        if fixed is not None and j in fixed:
            return rec(j + 1, vals + [fixed[j]])
        if kind in BOOL:
            p = prob_of(ev(pe[0], th, vals, np), np)
            return p * rec(j + 1, vals + [True]) + (1 - p) * rec(j + 1, vals + [False])
        if kind in BOOLVEC:
            p1, p2 = prob_of(ev(pe[0], th, vals, np), np), prob_of(ev(pe[1], th, vals, np), np)
            return sum((p1 if b1 else 1 - p1) * (p2 if b2 else 1 - p2) * rec(j + 1, vals + [np.array([b1, b2], dtype=np.float64)]) for b1 in (0, 1) for b2 in (0, 1))
        if kind == "categorical_enum_parallel":
            lg = np.array([ev(x, th, vals, np) for x in pe[0]], dtype=np.float64)
            pr = np.exp(lg - np.log(np.sum(np.exp(lg))))
            return sum(pr[k] * rec(j + 1, vals + [k]) for k in range(len(pr)))
        if kind == "geometric_reinforce":
            p = prob_of(ev(pe[0], th, vals, np), np)
            tot, k = 0.0, 0
            while (1 - p) ** k > 1e-13 and k < 600:
                tot += (1 - p) ** k * p * rec(j + 1, vals + [k])
                k += 1
            return tot
        if kind in ("normal_reparam", "normal_reinforce"):
            loc, sc = ev(pe[0], th, vals, np), pos_of(ev(pe[1], th, vals, np), np)
            return sum(w / math.sqrt(math.pi) * rec(j + 1, vals + [loc + sc * math.sqrt(2) * x]) for x, w in zip(*GH))
        if kind in ("uniform_reparam", "uniform_reinforce"):
            lo = ev(pe[0], th, vals, np)
            hi = lo + pos_of(ev(pe[1], th, vals, np), np)
            return sum(0.5 * w * rec(j + 1, vals + [0.5 * (hi - lo) * x + 0.5 * (hi + lo)]) for x, w in zip(*GL))
        if kind in VEC:
            loc = np.array([ev(pe[0], th, vals, np), ev(pe[1], th, vals, np) if kind not in ("normal_reparam_bs", "normal_reinforce_bs") else 0.0], dtype=np.float64)
            if kind in ("normal_reparam_bs", "normal_reinforce_bs"):
                loc = np.array([loc[0], loc[0]])
                L = np.diag([pos_of(ev(pe[1], th, vals, np), np), pos_of(ev(pe[2], th, vals, np), np)])
            elif kind == "normal_reparam_bl":
                L = np.eye(2) * pos_of(ev(pe[2], th, vals, np), np)
            elif kind == "mvn_diag_reparam":
                L = np.diag([pos_of(ev(pe[2], th, vals, np), np), 0.8])
            else:
                L = np.linalg.cholesky(np.asarray(COV))
            tot = 0.0
            for x1, w1 in zip(*GH12):
                for x2, w2 in zip(*GH12):
                    z = math.sqrt(2) * np.array([x1, x2])
                    tot += w1 * w2 / math.pi * rec(j + 1, vals + [loc + L @ z])
            return tot
        raise ValueError(kind)

    return rec(0, [])


def grad_ref(prog, th, level="hi"):
    g = []
    for i in range(len(th)):
        def f(h):
            a, b = list(th), list(th)
            a[i] += h
            b[i] -= h
            return (expect(prog, a, level=level) - expect(prog, b, level=level)) / (2 * h)

        h = 2e-2
        g.append((4 * f(h / 2) - f(h)) / 3)
    return g


# ------------------------------------------------------------------------------------------ genjax program
def build(prog):
    import jax.numpy as jnp
    from genjax import adev as A

    P = {
        "flip_enum": A.flip_enum, "flip_enum_parallel": A.flip_enum_parallel, "categorical_enum_parallel": A.categorical_enum_parallel,
        "flip_reinforce": A.flip_reinforce, "flip_mvd": A.flip_mvd, "geometric_reinforce": A.geometric_reinforce,
        "normal_reparam": A.normal_reparam, "normal_reinforce": A.normal_reinforce, "uniform_reparam": A.uniform_reparam,
        "uniform_reinforce": A.uniform_reinforce, "mvn_diag_reparam": A.multivariate_normal_diag_reparam,
        "mvn_reparam": A.multivariate_normal_reparam, "mvn_reinforce": A.multivariate_normal_reinforce,
    }

    def body(*th):
        vals = []
        for s in prog["sites"]:
            kind, pe = s[0], s[1:]
            if kind in BOOL or kind == "geometric_reinforce":
                v = P[kind](prob_of(ev(pe[0], th, vals, jnp), jnp))
            elif kind in BOOLVEC:
                v = (A.flip_enum if kind == "flip_enum_b" else A.flip_mvd)(jnp.stack([prob_of(ev(pe[0], th, vals, jnp), jnp), prob_of(ev(pe[1], th, vals, jnp), jnp)]))
            elif kind == "categorical_enum_parallel":
                v = P[kind](jnp.stack([ev(x, th, vals, jnp) * 1.0 for x in pe[0]]))
            elif kind in ("normal_reparam", "normal_reinforce"):
                v = P[kind](ev(pe[0], th, vals, jnp) * 1.0, pos_of(ev(pe[1], th, vals, jnp), jnp))
            elif kind in ("uniform_reparam", "uniform_reinforce"):
                lo = ev(pe[0], th, vals, jnp) * 1.0
                v = P[kind](lo, lo + pos_of(ev(pe[1], th, vals, jnp), jnp))
            elif kind in ("normal_reparam_bs", "normal_reinforce_bs"):
                base = A.normal_reparam if kind == "normal_reparam_bs" else A.normal_reinforce
                v = base(ev(pe[0], th, vals, jnp) * 1.0, jnp.stack([pos_of(ev(pe[1], th, vals, jnp), jnp), pos_of(ev(pe[2], th, vals, jnp), jnp)]))
            elif kind == "normal_reparam_bl":
                v = A.normal_reparam(jnp.stack([ev(pe[0], th, vals, jnp) * 1.0, ev(pe[1], th, vals, jnp) * 1.0]), pos_of(ev(pe[2], th, vals, jnp), jnp))
            elif kind == "mvn_diag_reparam":
                loc = jnp.stack([ev(pe[0], th, vals, jnp) * 1.0, ev(pe[1], th, vals, jnp) * 1.0])
                v = P[kind](loc, jnp.stack([pos_of(ev(pe[2], th, vals, jnp), jnp), jnp.asarray(0.8)]))
            else:
                loc = jnp.stack([ev(pe[0], th, vals, jnp) * 1.0, ev(pe[1], th, vals, jnp) * 1.0])
                v = P[kind](loc, jnp.asarray(COV, dtype=jnp.float32))
            vals.append(v)
        return ev(prog["ret"], th, vals, jnp) * 1.0

    return A.expectation(body)


def classify(case, ctx=None, n1=6000):
    import jax
    import jax.numpy as jnp
    from genjax import modular_vmap, seed
    from genjax.adev import Dual

    prog, th = case["prog"], [float(np.float32(t)) for t in case["theta"]]
    kinds = [s[0] for s in prog["sites"]]
    all_enum = all(k in ENUM for k in kinds)
    C = "+".join(sorted(set(kinds)))
    mode = case["mode"]
    fails, info = [], {"sites": kinds, "all_enum": all_enum, "mode": mode}
    E = expect(prog, th)
    G = grad_ref(prog, th)
    info["exact_value"], info["exact_grad"] = E, G
    # the oracle must be converged: compare with a coarser quadrature; otherwise the case is inconclusive, not a finding
    E_lo = expect(prog, th, level="lo")
    if abs(E - E_lo) > 2e-4 * (1.0 + abs(E)):
        info["reference_not_converged"] = [E, E_lo]
        return [], info
    G_lo = grad_ref(prog, th, level="lo")
    if any(abs(a - b) > 1e-3 * (1.0 + abs(a)) for a, b in zip(G, G_lo)):
        info["reference_not_converged"] = [G, G_lo]
        return [], info
    e = impl(build, prog)
    jth = [jnp.asarray(np.float32(t)) for t in th]
    c = ctx if ctx is not None else type("C", (), {"stat_tests": 0, "stat_stage2": 0})()
    scale = 1.0 + abs(E) + max(abs(g) for g in G)

    def tup(g):
        return [float(x) for x in (g if isinstance(g, (tuple, list)) else (g,))]

    try:
        if all_enum:
            # zero variance: exact for every key, in every configuration
            for i in range(3):
                k = env.key(case["key"], i)
                val = float(impl(seed(e.estimate), k, *jth) if mode != "jit" else impl(jax.jit(seed(e.estimate)), k, *jth))
                gr = tup(impl(seed(e.grad_estimate), k, *jth) if mode != "jit" else impl(jax.jit(seed(e.grad_estimate)), k, *jth))
                d = impl(seed(lambda *a: e.jvp_estimate(*[Dual(x, jnp.ones_like(x)) for x in a])), k, *jth)
                if abs(val - E) > 2e-4 * scale:
                    fails.append((f"enum_value:{C}", f"estimate = {val}, exact E[f] = {E} (theta {th}); enumeration must be exact for every key"))
                if any(abs(a - b) > 5e-4 * scale for a, b in zip(gr, G)):
                    fails.append((f"enum_grad:{C}", f"grad_estimate = {gr}, exact gradient = {G} (theta {th}); enumeration must be exact for every key"))
                if abs(float(d.tangent) - sum(G)) > 1e-3 * scale or abs(float(d.primal) - E) > 2e-4 * scale:
                    fails.append((f"enum_jvp:{C}", f"jvp_estimate with unit tangents = ({float(d.primal)}, {float(d.tangent)}), exact ({E}, {sum(G)})"))
                if fails:
                    break
            return fails, info
        # stochastic estimators: calibrated means over many keys
        if mode == "vmap_thetas":
            offs = np.asarray([0.0, 0.3, -0.4], dtype=np.float32)
            ths = [[float(np.float32(t + o)) for t in th] for o in offs]
            Es = [expect(prog, t) for t in ths]
            Gs = [grad_ref(prog, t) for t in ths]
            jths = [jnp.asarray(np.asarray([t[i] for t in ths], dtype=np.float32)) for i in range(len(th))]

            def one(k):
                v = seed(modular_vmap(lambda *a: e.estimate(*a), in_axes=0))(k, *jths)
                g = seed(modular_vmap(lambda *a: e.grad_estimate(*a), in_axes=0))(jax.random.fold_in(k, 1), *jths)
                return v, (g if isinstance(g, tuple) else (g,))
        else:
            Es, Gs = [E], [G]

            def one(k):
                v = seed(e.estimate)(k, *jth)
                g = seed(e.grad_estimate)(jax.random.fold_in(k, 1), *jth)
                return jnp.reshape(v, (1,)), tuple(jnp.reshape(x, (1,)) for x in (g if isinstance(g, tuple) else (g,)))

        bs = jax.jit(jax.vmap(one))
        cache = {}

        def draw(n, stage):
            if stage not in cache:
                v, g = impl(bs, jax.random.split(env.key(case["key"], 10 + stage), n))
                cache[stage] = (np.asarray(v, dtype=np.float64), [np.asarray(x, dtype=np.float64) for x in g])
            return cache[stage]

        def pfun(n, stage):
            v, g = draw(n, stage)
            ps, worst = [], None
            for lane in range(v.shape[1]):
                p, i1 = stats.block_mean_t_p(v[:, lane], Es[lane])
                ps.append((p, ("value", lane, i1)))
                for i in range(len(g)):
                    p, i2 = stats.block_mean_t_p(g[i][:, lane], Gs[lane][i])
                    ps.append((p, (f"grad[{i}]", lane, i2)))
            p, w = min(ps, key=lambda x: x[0])
            return min(1.0, p * len(ps)), {"worst": str(w)}

        res = stats.two_stage(c, pfun, n1)
        if res:
            what = res["stage2"]["worst"]
            bucket = "value_biased" if "'value'" in what else "grad_biased"
            if bucket == "grad_biased" and any(s[0] == "uniform_reinforce" and (_mentions_theta(s[1]) or _mentions_theta(s[2])) for s in prog["sites"]):
                C = "uniform_reinforce_with_parameter_dependent_bounds"
            fails.append((f"{bucket}:{C}", f"theta {th}, mode {mode}: mean of the estimates differs from the exact value/gradient (exact E={Es}, grad={Gs}): {res}"))
        # pathwise identity for reparameterised-only programs: the tangent for the noise actually drawn
        if not fails and all(k in ("normal_reparam", "uniform_reparam") for k in kinds) and mode == "seed":
            for i in range(3):
                k = env.key(case["key"], 100 + i)
                vals = _decode_draws(prog, e, jth, k)
                if vals is None:
                    break
                want = _pathwise_grad(prog, th, vals)
                got = tup(impl(seed(e.grad_estimate), k, *jth))
                if any(abs(a - b) > 2e-3 * (1 + abs(b)) for a, b in zip(got, want)):
                    fails.append((f"pathwise:{C}", f"key {i}: grad_estimate {got} != pathwise derivative for the noise actually drawn {want}"))
                    break
    except ImplError as ex:
        if "stop_gradient" in str(ex) and _cond_on_parallel_enum(prog):
            fails.append(("grad_raises:lax_cond_on_parallel_enumerated_value", f"theta {th} mode {mode}: {ex}"))
        else:
            fails.append((f"raises:{ex.sig()}:{C}", f"theta {th} mode {mode}: {ex}"))
    return fails, info


def _cond_on_parallel_enum(prog):
    par = {j for j, s in enumerate(prog["sites"]) if s[0] in ("flip_enum_parallel", "categorical_enum_parallel")}

    def conds(e):
        if isinstance(e, list):
            if e and e[0] == "cond":
                yield e
            for x in e:
                yield from conds(x)

    def sites_in(e):
        if isinstance(e, list):
            if e and e[0] in ("num", "s") and isinstance(e[1], int):
                yield e[1]
            for x in e:
                yield from sites_in(x)

    # a cond anywhere downstream of a parallel-enumerated site is evaluated under that site's modular_vmap
    return bool(par) and any(True for _ in conds(prog["ret"]))


def _decode_draws(prog, e, jth, key):
    """Draw values of all (scalar, reparameterised) sites for this key: re-run a vector-valued twin of the program."""
    import jax.numpy as jnp
    from genjax import seed
    from genjax import adev as A

    twin = {"sites": prog["sites"], "ret": prog["ret"]}

    def body(*th):
        vals = []
        for s in twin["sites"]:
            kind, pe = s[0], s[1:]
            if kind == "normal_reparam":
                v = A.normal_reparam(ev(pe[0], th, vals, jnp) * 1.0, pos_of(ev(pe[1], th, vals, jnp), jnp))
            else:
                lo = ev(pe[0], th, vals, jnp) * 1.0
                v = A.uniform_reparam(lo, lo + pos_of(ev(pe[1], th, vals, jnp), jnp))
            vals.append(v)
        return jnp.stack(vals)

    try:
        out = seed(A.expectation(body).estimate)(key, *jth)
        return [float(x) for x in np.asarray(out)]
    except Exception:  # noqa: BLE001
        return None


def _pathwise_grad(prog, th, vals):
    """d/dtheta f(g(eps; theta), theta) with eps recovered from the drawn values (finite differences, float64)."""
    def noise(thv):
        eps, cur = [], []
        for s, v in zip(prog["sites"], vals):
            a = ev(s[1], thv, cur, np)
            b = pos_of(ev(s[2], thv, cur, np), np)
            eps.append((v - a) / b)
            cur.append(v)
        return eps

    eps = noise([np.float64(t) for t in th])

    def f(thv):
        cur = []
        for s, z in zip(prog["sites"], eps):
            a = ev(s[1], thv, cur, np)
            b = pos_of(ev(s[2], thv, cur, np), np)
            cur.append(a + b * z)
        return float(ev(prog["ret"], thv, cur, np))

    g = []
    for i in range(len(th)):
        h = 1e-4
        a, b = [np.float64(t) for t in th], [np.float64(t) for t in th]
        a[i] += h
        b[i] -= h
        g.append((f(a) - f(b)) / (2 * h))
    return g


# ------------------------------------------------------------------------------------------ strategy
def cases():
    from hypothesis import strategies as st

    con = st.sampled_from([-1.0, -0.5, 0.5, 1.0, 2.0])

    @st.composite
    def _c(draw):
        nth = draw(st.integers(1, 2))
        n_sites = draw(st.integers(1, 3))
        flavour = draw(st.sampled_from(["enum", "enum", "mixed", "mixed", "reparam", "sf"]))
        pool = {"enum": sorted(ENUM), "reparam": ["normal_reparam", "uniform_reparam", "normal_reparam", "normal_reparam_bs", "normal_reparam_bl", "mvn_reparam", "mvn_reparam", "mvn_diag_reparam"], "sf": sorted(DISC_SF | BOOLVEC | CONT_SF - {"mvn_reinforce"}),
                "mixed": sorted(ENUM | DISC_SF | BOOLVEC | CONT_REPARAM | CONT_SF | INF)}[flavour]
        sites, n_cont = [], 0

        def expr(j, depth=1):
            """smooth expression over theta and earlier site values (numeric views)"""
            base = [["t", i] for i in range(nth)] + [["num", k] for k in range(j)]
            e = draw(st.sampled_from(base))
            w = draw(st.integers(0, 4))
            if w == 0:
                e = ["mul", ["c", draw(con)], e]
            elif w == 1:
                e = ["tanh", e]
            elif w == 2 and depth:
                e = ["add", e, expr(j, 0)]
            elif w == 3 and depth:
                e = ["mul", e, expr(j, 0)]
            return e

        for j in range(n_sites):
            kind = draw(st.sampled_from(pool))
            if kind in (CONT_REPARAM | CONT_SF) and n_cont >= 2:
                kind = "flip_enum"
            if kind in VEC and n_cont >= 1:
                kind = "normal_reparam" if flavour != "sf" else "normal_reinforce"
            if kind in (CONT_REPARAM | CONT_SF):
                n_cont += 2 if kind in VEC else 1
            if kind in BOOL or kind == "geometric_reinforce":
                sites.append([kind, expr(j)])
            elif kind in BOOLVEC:
                sites.append([kind, expr(j), expr(j, 0)])
            elif kind == "categorical_enum_parallel":
                sites.append([kind, [expr(j, 0), ["c", 0.0], expr(j, 0)]])
            elif kind in VEC:
                sites.append([kind, expr(j), expr(j, 0), expr(j, 0)])
            elif kind == "uniform_reinforce":
                # known finding (known_findings.jsonl): the score-function estimator ignores a support that moves with the
                # differentiated parameter.  That region is excluded by construction here (constant bounds) and kept as a
                # corpus case, so that the search continues behind it.
                sites.append([kind, ["c", draw(con)], ["c", draw(con)]])
            else:
                sites.append([kind, expr(j), expr(j, 0)])
        n = len(sites)
        ret = ["add", ["tanh", expr(n)], ["mul", ["sin", expr(n)], expr(n, 0)]]
        disc = [k for k, s in enumerate(sites) if s[0] in BOOL or s[0] == "categorical_enum_parallel"]
        if disc and draw(st.booleans()):
            k = draw(st.sampled_from(disc))
            has_par = any(x[0] in ("flip_enum_parallel", "categorical_enum_parallel") for x in sites)
            # known finding: grad_estimate raises when a lax.cond runs under a parallel-enumeration site -> excluded here
            ret = [draw(st.sampled_from(["where"] if has_par else ["where", "cond"])), k, ret, ["mul", ["c", -0.5], expr(n)], 0.5]
            if ret[0] == "cond":
                ret[1] = ["num", k]
        elif draw(st.integers(0, 3)) == 0 and not any(x[0] in ("flip_enum_parallel", "categorical_enum_parallel") for x in sites):
            ret = ["cond", ["t", 0], ret, ["add", ret, ["c", 1.0]], 10.0]  # cond on theta (false branch taken, both transformed)
        return {"prog": {"sites": sites, "ret": ret}, "theta": [draw(st.sampled_from([-0.8, -0.3, 0.2, 0.6, 1.1])) for _ in range(nth)],
                "mode": draw(st.sampled_from(["seed", "seed", "jit", "vmap_thetas"])), "key": draw(st.integers(0, 2**30))}

    return _c()


def one_case(ctx, case):
    P = plan(ctx)
    env.reset()
    fails, info = classify(case, ctx, P["n1"])
    kinds = info["sites"]
    if any(k in ("flip_enum_parallel", "categorical_enum_parallel") for k in kinds):
        ctx.excluded_known += 1
    if "uniform_reinforce" in kinds and not any(s[0] == "uniform_reinforce" and _mentions_theta(s[1:]) for s in case["prog"]["sites"]):
        ctx.excluded_known += 1
    fam = lambda k: "enum" if k in ENUM else "reparam" if k in CONT_REPARAM else "mvd" if k == "flip_mvd" else "score"  # noqa: E731
    fams = {fam(k) for k in kinds}
    dep = any(any(_mentions_site(x) for x in s[1:]) for s in case["prog"]["sites"])
    nt = len(fams) >= 2 or dep or case["prog"]["ret"][0] in ("cond", "where")
    cls = [f"C11.site_{k}" for k in set(kinds)] + [f"C11.mode_{case['mode']}"] + (["C11.composition_of_different_estimator_kinds"] if len(fams) >= 2 else []) + \
          (["C11.param_depends_on_earlier_draw"] if dep else []) + ([f"C11.ret_{case['prog']['ret'][0]}"] if case["prog"]["ret"][0] in ("cond", "where") else []) + \
          (["C11.reference_not_converged(skipped)"] if "reference_not_converged" in info else ["C11.all_enum_exact"] if info["all_enum"] else ["C11.stochastic_calibrated"]) + (["C11.batched_scalar_family_site"] if any(k.endswith(("_bs", "_bl")) for k in kinds) else []) + (["C11.batched_bernoulli_site"] if any(k in BOOLVEC for k in kinds) else [])
    ctx.case(case, nt, cls, sample={**case, "info": {k: v for k, v in info.items() if k != "sites"}})
    for b, w in fails:
        ctx.fail(b, w, case)


def _mentions_theta(e):
    if isinstance(e, list):
        if e and e[0] in ("t", "s", "num"):
            return True
        return any(_mentions_theta(x) for x in e)
    return False


def _mentions_site(e):
    if isinstance(e, list):
        if e and e[0] in ("s", "num"):
            return True
        return any(_mentions_site(x) for x in e)
    return False


def run_shard(ctx):
    P = plan(ctx)
    drive(ctx, cases(), P["n_cases"], lambda c: one_case(ctx, c), "main")


def replay(case):
    return classify(case, None, 6000)[0]
