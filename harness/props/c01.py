"""C01 - assess is the joint log density; simulate samples exactly from it."""
import numpy as np

from harness import env, gfi, lawtest, modelir, refmodel, stats
from harness.engine import ImplError, drive, impl
from harness.plans import plan

ID = "C01"


def feat(prog):
    f = modelir.features(prog) & ({"vmap", "scan", "cond", "vdist", "call", "kwargs", "event"} | set(modelir.NEST_KINDS))
    return "+".join(sorted(f)) or "flat"


def rpit(dist, v, ps, rng):
    """PIT for continuous sites, randomized PIT for discrete ones: U(0,1) iff v ~ dist(ps)."""
    u = refmodel.pit(dist, v, ps)
    if u is not None:
        return u
    supp = refmodel.support(dist, ps)
    pm = np.exp([refmodel.logpdf(dist, s, ps) for s in supp])
    j = supp.index(bool(v) if dist == "flip" else int(v))
    return [float(pm[:j].sum() + rng.random() * pm[j])]


def batch_simulate(gf, jargs, jkw, keys):
    import jax
    from genjax import seed

    def one(k):
        tr = seed(gf.simulate)(k, *jargs, **jkw)
        return tr.get_choices(), tr.get_score(), tr.get_retval()

    return jax.jit(jax.vmap(one))(keys)


def lane(tree, i):
    import jax

    return jax.tree_util.tree_map(lambda x: np.asarray(x)[i], tree)


def classify(case, ctx=None, n1=600):
    import jax
    import jax.numpy as jnp
    from genjax import seed

    prog = case["prog"]
    F = feat(prog)
    fails, info = [], {"features": F}
    ref = refmodel.Ref(prog)
    rargs, rkw = gfi.ref_args(case)
    jargs, jkw = modelir.jargs(case)
    try:
        gf = impl(modelir.build, prog)
    except ImplError as e:
        return [(f"build_raises|{F}", str(e))], info
    rng = np.random.default_rng(case["key"])

    # (a) assess on reference-sampled choice maps (independent of simulate)
    aj = gfi.jit_assess(gf)
    for j in range(3):
        ch, rret = ref.sample(rargs, rkw, rng)
        r = ref.score(rargs, rkw, ch)
        try:
            if j == 0:
                lp, rv = impl(gf.assess, modelir.to_jnp(ch), *jargs, **jkw)
            else:
                lp, rv = impl(aj, modelir.to_jnp(ch), tuple(jargs), dict(jkw))
            lp = float(np.sum(np.asarray(lp)))
            if not gfi.close(lp, r["logp"], r["mag"]):
                fails.append((f"assess.logp|{F}", f"assess={lp} reference={r['logp']} (sum|terms|={r['mag']:.3g}) choices={gfi._short(ch)}"))
            if not gfi.retclose(rv, r["retval"]):
                fails.append((f"assess.retval|{F}", f"assess retval={np.asarray(rv)} reference={r['retval']} choices={gfi._short(ch)}"))
            ld = float(impl(gf.log_density, modelir.to_jnp(ch), *jargs, **jkw)) if j == 0 else r["logp"]
            if not gfi.close(ld, r["logp"], r["mag"]):
                fails.append((f"log_density|{F}", f"log_density={ld} reference={r['logp']}"))
        except ImplError as e:
            fails.append((f"assess_raises:{e.sig()}|{F}", f"{e}; choices={gfi._short(ch)}"))
            break

    # (b) simulate in several execution modes; coherence; cross-mode agreement for one key
    k0 = env.key(case["key"], 1)
    traces = {}
    modes = ["seed", "jit", "vmapkeys"] + ([] if modelir.features(prog) & {"scan", "vscan", "scanv"} else ["unseeded"])
    for mode in modes:
        try:
            if mode == "seed":
                tr = impl(seed(gf.simulate), k0, *jargs, **jkw)
            elif mode == "jit":
                tr = impl(jax.jit(seed(gf.simulate)), k0, *jargs, **jkw)
            elif mode == "vmapkeys":
                ks = jnp.stack([env.key(case["key"], 2), k0, env.key(case["key"], 3)])
                trs = impl(jax.vmap(lambda k: seed(gf.simulate)(k, *jargs, **jkw)), ks)
                tr = jax.tree_util.tree_map(lambda x: x[1], trs)
            else:
                tr = impl(gf.simulate, *jargs, **jkw)
        except ImplError as e:
            fails.append((f"simulate_raises[{mode}]:{e.sig()}|{F}", str(e)))
            continue
        traces[mode] = tr
        f2, _ = gfi.coherent(gf, ref, tr, rargs, rkw, jargs, jkw, tag=f"simulate[{mode}]", assess=aj)
        fails += [(f"{b}|{F}", w) for b, w in f2]
        try:
            a = impl(tr.get_args)
            flat_a = jax.tree_util.tree_leaves(a)
            want = jax.tree_util.tree_leaves((tuple(jargs), jkw))
            if len(flat_a) != len(want) or any(not gfi.bit_equal(x, y) for x, y in zip(flat_a, want)):
                fails.append((f"get_args[{mode}]|{F}", f"get_args()={a} does not round-trip the call's arguments {(jargs, jkw)}"))
        except ImplError as e:
            fails.append((f"get_args_raises:{e.sig()}|{F}", str(e)))
    if "seed" in traces and not any(".accessor_raises" in b for b, _ in fails):
        base = gfi.flat(gfi.to_np(traces["seed"].get_choices()))
        for mode in ("jit", "vmapkeys"):
            if mode in traces:
                other = gfi.flat(gfi.to_np(traces[mode].get_choices()))
                bad = [p for p in base if p not in other or not gfi.ulp_close(base[p], other[p])]
                if bad or set(other) != set(base):
                    fails.append((f"modes_disagree[seed-vs-{mode}]|{F}", f"same key, different choices at {bad[:4]}: {[(base[p].tolist(), other.get(p, np.nan).tolist()) for p in bad[:2]]}"))

    # (c) the law of simulate
    if not any(b.startswith("simulate_raises") or ".accessor_raises" in b for b, _ in fails):
        fails += law(case, gf, ref, rargs, rkw, jargs, jkw, F, info, ctx, n1)
    return fails, info


def law(case, gf, ref, rargs, rkw, jargs, jkw, F, info, ctx, n1):
    import jax
    from genjax import seed

    def one(k):
        tr = seed(gf.simulate)(k, *jargs, **jkw)
        return tr.get_choices(), tr.get_score(), tr.get_retval()

    bs = jax.jit(jax.vmap(one))

    def draw(n, stage):
        keys = jax.random.split(env.key(case["key"], 10 + stage), n)
        ch, sc, rv = impl(bs, keys)
        return gfi.to_np(ch), np.asarray(sc), np.asarray(rv), None

    fails, linfo = lawtest.check_law(ctx, case["prog"], ref, rargs, rkw, draw, n1, F, case["key"])
    info.update(linfo)
    return fails


def run_shard(ctx):
    from hypothesis import strategies as st

    P = plan(ctx)

    def one(case):
        env.reset()
        fails, info = classify(case, ctx, P["n1"])
        prog = case["prog"]
        fs = modelir.features(prog)
        nt = (modelir.n_leaf_sites(prog) >= 2 and "dep" in fs) or bool(fs & {"vmap", "scan", "cond", "vdist", "call", "nest"})
        ctx.case(case, nt, [f"C01.prog_with_{f}" for f in sorted(fs)] + [f"C01.law_{info.get('law', 'none')}"],
                 sample={"program": prog, "args": case["args"], "kwargs": case["kwargs"], "info": info})
        for b, w in fails:
            ctx.fail(b, w, case)

    def strat(discrete, force=None):
        return st.builds(lambda p, k: {**p, "key": k, "discrete": discrete},
                         modelir.programs(discrete=discrete, force=force), st.integers(0, 2**30))

    n = P["n_programs"]
    forces = [None, "scan", "vmap", "cond", "vdist", "call", "detcall", "condm"]
    drive(ctx, strat(False, forces[ctx.shard % len(forces)]), n - n // 3, one, "cont")
    drive(ctx, strat(True, forces[(ctx.shard + 1) % len(forces)]), n // 3, one, "disc")
    nk = modelir.NEST_KINDS  # combinators applied directly to combinators
    drive(ctx, strat(ctx.shard % 3 == 2, nk[ctx.shard % len(nk)]), P.get("n_nest", max(2, n // 3)), one, "nest")


def replay(case):
    return classify(case, None, 600)[0]
