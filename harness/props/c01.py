"""C01 - assess is the joint log density; simulate samples exactly from it."""
import numpy as np

from harness import env, gfi, modelir, refmodel, stats
from harness.engine import ImplError, drive, impl
from harness.plans import plan

ID = "C01"


def feat(prog):
    f = modelir.features(prog) & {"vmap", "scan", "cond", "vdist", "call", "kwargs", "event"}
    return "+".join(sorted(f)) or "flat"


def rpit(dist, v, ps, rng):
    """PIT for continuous sites, randomized PIT for discrete ones: U(0,1) iff v ~ dist(ps)."""
    u = refmodel.pit(dist, v, ps)
    if u is not None:
        return u
    supp = refmodel.support(dist, ps)
    pm = np.exp([refmodel.logpdf(dist, s, ps) for s in supp])
    j = supp.index(bool(v) if dist == "flip" else int(v))
    return [float(pm[:j].sum() + rng.random() * pm[j])]


def batch_simulate(gf, jargs, jkw, keys):
    import jax
    from genjax import seed

    def one(k):
        tr = seed(gf.simulate)(k, *jargs, **jkw)
        return tr.get_choices(), tr.get_score(), tr.get_retval()

    return jax.jit(jax.vmap(one))(keys)


def lane(tree, i):
    import jax

    return jax.tree_util.tree_map(lambda x: np.asarray(x)[i], tree)


def classify(case, ctx=None, n1=600):
    import jax
    import jax.numpy as jnp
    from genjax import seed

    prog = case["prog"]
    F = feat(prog)
    fails, info = [], {"features": F}
    ref = refmodel.Ref(prog)
    rargs, rkw = gfi.ref_args(case)
    jargs, jkw = modelir.jargs(case)
    try:
        gf = impl(modelir.build, prog)
    except ImplError as e:
        return [(f"build_raises|{F}", str(e))], info
    rng = np.random.default_rng(case["key"])

    # (a) assess on reference-sampled choice maps (independent of simulate)
    aj = gfi.jit_assess(gf)
    for j in range(3):
        ch, rret = ref.sample(rargs, rkw, rng)
        r = ref.score(rargs, rkw, ch)
        try:
            if j == 0:
                lp, rv = impl(gf.assess, modelir.to_jnp(ch), *jargs, **jkw)
            else:
                lp, rv = impl(aj, modelir.to_jnp(ch), tuple(jargs), dict(jkw))
            lp = float(np.sum(np.asarray(lp)))
            if not gfi.close(lp, r["logp"], r["mag"]):
                fails.append((f"assess.logp|{F}", f"assess={lp} reference={r['logp']} (sum|terms|={r['mag']:.3g}) choices={gfi._short(ch)}"))
            if not gfi.retclose(rv, r["retval"]):
                fails.append((f"assess.retval|{F}", f"assess retval={np.asarray(rv)} reference={r['retval']} choices={gfi._short(ch)}"))
            ld = float(impl(gf.log_density, modelir.to_jnp(ch), *jargs, **jkw)) if j == 0 else r["logp"]
            if not gfi.close(ld, r["logp"], r["mag"]):
                fails.append((f"log_density|{F}", f"log_density={ld} reference={r['logp']}"))
        except ImplError as e:
            fails.append((f"assess_raises:{e.sig()}|{F}", f"{e}; choices={gfi._short(ch)}"))
            break

    # (b) simulate in several execution modes; coherence; cross-mode agreement for one key
    k0 = env.key(case["key"], 1)
    traces = {}
    modes = ["seed", "jit", "vmapkeys"] + ([] if "scan" in F else ["unseeded"])
    for mode in modes:
        try:
            if mode == "seed":
                tr = impl(seed(gf.simulate), k0, *jargs, **jkw)
            elif mode == "jit":
                tr = impl(jax.jit(seed(gf.simulate)), k0, *jargs, **jkw)
            elif mode == "vmapkeys":
                ks = jnp.stack([env.key(case["key"], 2), k0, env.key(case["key"], 3)])
                trs = impl(jax.vmap(lambda k: seed(gf.simulate)(k, *jargs, **jkw)), ks)
                tr = jax.tree_util.tree_map(lambda x: x[1], trs)
            else:
                tr = impl(gf.simulate, *jargs, **jkw)
        except ImplError as e:
            fails.append((f"simulate_raises[{mode}]:{e.sig()}|{F}", str(e)))
            continue
        traces[mode] = tr
        f2, _ = gfi.coherent(gf, ref, tr, rargs, rkw, jargs, jkw, tag=f"simulate[{mode}]", assess=aj)
        fails += [(f"{b}|{F}", w) for b, w in f2]
        try:
            a = impl(tr.get_args)
            flat_a = jax.tree_util.tree_leaves(a)
            want = jax.tree_util.tree_leaves((tuple(jargs), jkw))
            if len(flat_a) != len(want) or any(not gfi.bit_equal(x, y) for x, y in zip(flat_a, want)):
                fails.append((f"get_args[{mode}]|{F}", f"get_args()={a} does not round-trip the call's arguments {(jargs, jkw)}"))
        except ImplError as e:
            fails.append((f"get_args_raises:{e.sig()}|{F}", str(e)))
    if "seed" in traces:
        base = gfi.flat(gfi.to_np(traces["seed"].get_choices()))
        for mode in ("jit", "vmapkeys"):
            if mode in traces:
                other = gfi.flat(gfi.to_np(traces[mode].get_choices()))
                bad = [p for p in base if p not in other or not gfi.ulp_close(base[p], other[p])]
                if bad or set(other) != set(base):
                    fails.append((f"modes_disagree[seed-vs-{mode}]|{F}", f"same key, different choices at {bad[:4]}: {[(base[p].tolist(), other.get(p, np.nan).tolist()) for p in bad[:2]]}"))

    # (c) the law of simulate
    if not any(b.startswith("simulate_raises") for b, _ in fails):
        fails += law(case, gf, ref, rargs, rkw, jargs, jkw, F, info, ctx, n1)
    return fails, info


def law(case, gf, ref, rargs, rkw, jargs, jkw, F, info, ctx, n1):
    import jax

    fails = []
    prog = case["prog"]
    discrete = all(s[2] in refmodel.DISCRETE for fn in prog["fns"].values() for s in fn["body"] if s[0] in ("draw", "vdist"))
    enum = ref.enumerate(rargs, rkw, limit=2048) if discrete else None
    info["law"] = "exact-pmf" if enum else "pit"

    class _C:
        stat_tests = 0
        stat_stage2 = 0

    c = ctx if ctx is not None else _C()

    def draw(n, stage):
        keys = jax.random.split(env.key(case["key"], 10 + stage), n)
        ch, sc, rv = impl(batch_simulate, gf, jargs, jkw, keys)
        return gfi.to_np(ch), np.asarray(sc), np.asarray(rv)

    if enum:
        pmf = {k: lp for (_, lp, _, k) in enum}
        rets = {k: rv for (_, _, rv, k) in enum}
        keys_sorted = sorted(pmf)
        probs = np.exp([pmf[k] for k in keys_sorted])
        det = {}

        def pfun(n, stage):
            ch, sc, rv = draw(n, stage)
            counts = {k: 0 for k in keys_sorted}
            for i in range(n):
                k = refmodel.outcome_key(lane(ch, i))
                if k not in pmf:
                    det["outside"] = (k, float(sc[i]))
                    return 0.0, {"outcome_outside_support": str(k)}
                counts[k] += 1
                if "score" not in det and not gfi.close(sc[i], -pmf[k], abs(pmf[k]) * 3):
                    det["score"] = (k, float(sc[i]), -pmf[k])
                if "ret" not in det and not gfi.retclose(rv[i], rets[k]):
                    det["ret"] = (k, np.asarray(rv[i]).tolist(), np.asarray(rets[k]).tolist())
            return stats.chi2_p([counts[k] for k in keys_sorted], probs)

        res = stats.two_stage(c, pfun, n1 * 4)
        if "outside" in det:
            fails.append((f"law.outcome_outside_support|{F}", f"simulate produced outcome {det['outside'][0]} which has reference probability 0"))
        elif res:
            fails.append((f"law.pmf|{F}", f"outcome frequencies differ from the exact enumerated pmf ({len(pmf)} outcomes): {res}"))
        if "score" in det:
            fails.append((f"law.score_per_outcome|{F}", f"outcome {det['score'][0]}: trace score {det['score'][1]} != -log pmf {det['score'][2]}"))
        if "ret" in det:
            fails.append((f"law.retval_per_outcome|{F}", f"outcome {det['ret'][0]}: retval {det['ret'][1]} != reference {det['ret'][2]}"))
        info["support"] = len(pmf)
        return fails

    # continuous / mixed: Rosenblatt transform through the reference conditional priors
    rng = np.random.default_rng(case["key"] + 77)
    cache = {}

    def pits(n, stage):
        if stage in cache:
            return cache[stage]
        ch, sc, rv = draw(n, stage)
        cols, bad_score, equal_pairs = {}, None, None
        for i in range(n):
            chi = lane(ch, i)
            us = {}

            def site(path, idx, dist, ps):
                g = np.asarray(refmodel.cget(chi, path))
                v = g[idx] if idx else g
                lp = refmodel.logpdf(dist, v, ps)
                acc[0] += lp
                acc[1] += abs(lp)
                for j, u in enumerate(rpit(dist, v, ps, rng)):
                    us[(path, idx, j)] = u
                return v

            acc = [0.0, 0.0]
            try:
                ret = ref.run(prog["main"], rargs, rkw, site)
            except Exception as e:  # noqa: BLE001
                cache[stage] = ("shape", f"{type(e).__name__}: {e}")
                return cache[stage]
            if bad_score is None and not gfi.close(sc[i], -acc[0], acc[1]):
                bad_score = (i, float(sc[i]), -acc[0], gfi._short(chi))
            if bad_score is None and not gfi.retclose(rv[i], ret):
                bad_score = (i, "retval", np.asarray(rv[i]).tolist(), np.asarray(ret).tolist())
            for k, u in us.items():
                cols.setdefault(k, []).append(u)
        cache[stage] = ("ok", cols, bad_score, n)
        return cache[stage]

    first = pits(n1, 1)
    if first[0] == "shape":
        return [(f"law.choice_shape|{F}", first[1])]
    _, cols, bad_score, n = first
    if bad_score:
        fails.append((f"law.batch_score_or_retval|{F}", f"vmapped trace #{bad_score[0]}: {bad_score[1:]}"))
    full = {k: v for k, v in cols.items() if len(v) == n}  # positions present in every trace (control flow may vary)
    info["pit_positions"] = len(full)
    # marginals
    for k in sorted(full, key=str):
        def pfun(nn, stage, k=k):
            r = pits(nn, stage)
            col = r[1].get(k, [])
            return stats.ks_uniform_p(col), {"pos": str(k), "n": len(col)}

        res = stats.two_stage(c, pfun, n1)
        if res:
            fails.append((f"law.marginal|{F}", f"site {'/'.join(k[0])}{list(k[1])}[{k[2]}]: draws do not follow the conditional prior given parents (PIT not uniform): {res}"))
            break
    # pairwise independence of the Rosenblatt coordinates
    ks = sorted(full, key=str)
    pairs = [(a, b) for ia, a in enumerate(ks) for b in ks[ia + 1:]][:40]
    for a, b in pairs:
        if np.allclose(full[a], full[b]):
            fails.append((f"law.identical_draws|{F}", f"sites {a} and {b} have identical PIT values in all {n} traces (shared randomness)"))
            break

        def pfun(nn, stage, a=a, b=b):
            r = pits(nn, stage)
            p, rho = stats.spearman_p(r[1][a], r[1][b])
            return p, {"pair": str((a, b)), "rho": rho}

        res = stats.two_stage(c, pfun, n1)
        if res:
            fails.append((f"law.dependence|{F}", f"Rosenblatt coordinates {a} and {b} are correlated: {res}"))
            break
    return fails


def run_shard(ctx):
    from hypothesis import strategies as st

    P = plan(ctx)

    def one(case):
        env.reset()
        fails, info = classify(case, ctx, P["n1"])
        prog = case["prog"]
        fs = modelir.features(prog)
        nt = (modelir.n_leaf_sites(prog) >= 2 and "dep" in fs) or bool(fs & {"vmap", "scan", "cond", "vdist", "call"})
        ctx.case(case, nt, [f"C01.prog_with_{f}" for f in sorted(fs)] + [f"C01.law_{info.get('law', 'none')}"],
                 sample={"program": prog, "args": case["args"], "kwargs": case["kwargs"], "info": info})
        for b, w in fails:
            ctx.fail(b, w, case)

    def strat(discrete, force=None):
        return st.builds(lambda p, k: {**p, "key": k, "discrete": discrete},
                         modelir.programs(discrete=discrete, force=force), st.integers(0, 2**30))

    n = P["n_programs"]
    forces = [None, "scan", "vmap", "cond", "vdist", "call"]
    drive(ctx, strat(False, forces[ctx.shard % len(forces)]), n - n // 3, one, "cont")
    drive(ctx, strat(True, forces[(ctx.shard + 1) % len(forces)]), n // 3, one, "disc")


def replay(case):
    return classify(case, None, 600)[0]
