"""C05 - traces stay coherent under any history of edits and inference moves (model-based, history-generating check).

A case is a generated *history*: a program, an initial constrained generate, then a list of operations
(update / regenerate / mh / mala / hmc / jit round trip / vectorize-index / vectorize-resample-index).
After every step the invariant is checked against the reference model:
  score == -reference log density of the choices under the arguments the trace records; retval == reference retval;
  observed-and-never-touched addresses still hold their original values;
  weights of consecutive updates telescope.
"""
import numpy as np

from harness import env, gfi, modelir, refmodel, selref
from harness.engine import ImplError, drive, impl
from harness.plans import plan
from harness.props.c01 import feat
from harness.props.c02 import constraint_map
from harness.props.c03 import cast_like, without
from harness.props.c04 import st_selection

ID = "C05"
GRAD_DISTS = {"normal", "mvnormal"}


def stored_args(tr):
    a = tr.get_args()
    args, kw = a if (isinstance(a, tuple) and len(a) == 2 and isinstance(a[1], dict)) else (a, {})
    return list(args), dict(kw)


def run_history(case):
    """-> (fails, info).  Stops at the first failing step (the history prefix is the reproduction)."""
    import jax
    import jax.numpy as jnp
    from genjax import seed
    from genjax.inference import hmc, mala, mh
    from genjax.inference.smc import resample_vectorized_trace
    from genjax.state import state

    prog = case["prog"]
    F = feat(prog)
    info = {"features": F, "steps_run": 0, "kinds": []}
    ref = refmodel.Ref(prog)
    gf = impl(modelir.build, prog)
    rng = np.random.default_rng(case["key"])
    rargs, rkw = gfi.ref_args(case)
    jargs, jkw = modelir.jargs(case)
    ch_ref, _ = ref.sample(rargs, rkw, rng)
    S0 = [tuple(p) for p in case["gen_subset"] if refmodel.has_path(ch_ref, tuple(p))]
    try:
        tr, _ = impl(seed(gf.generate), env.key(case["key"], 0), modelir.to_jnp(constraint_map(ch_ref, S0)) if S0 else None, *jargs, **jkw)
    except ImplError as e:
        return [(f"setup_generate_raises:{e.sig()}|{F}", str(e))], info
    flat_ref = refmodel.flat_leaves(ch_ref)
    observed = {p: np.asarray(flat_ref[p]) for p in S0}
    dists = {p: d[0] for p, d in ref.leaf_info(rargs, rkw).items()}
    tele = None  # (logp at start of the run of updates, accumulated weight, accumulated magnitude)

    def invariant(tr, after):
        a, kw = stored_args(tr)
        ra = [np.float64(np.asarray(x)) for x in a]
        rk = {k: np.float64(np.asarray(v)) for k, v in kw.items()}
        f, r = gfi.coherent(gf, ref, tr, ra, rk, a, kw, tag=f"after_{after}")
        out = [(f"{b}|{F}", m) for b, m in f]
        if r is not None:
            got = refmodel.flat_leaves(gfi.to_np(tr.get_choices()))
            for p, v in observed.items():
                if p not in got or not gfi.bit_equal(np.asarray(got[p]), v.astype(np.asarray(got[p]).dtype)):
                    out.append((f"after_{after}.observed_value_changed|{F}", f"observed {'/'.join(p)} was {v.tolist()}, now {np.asarray(got.get(p)).tolist()}"))
                    break
        return out, r

    fails, r = invariant(tr, "generate")
    if fails:
        return fails, info
    for step, op in enumerate(case["ops"]):
        kind = op["op"]
        k = env.key(case["key"], 1, step)
        ch = gfi.to_np(tr.get_choices())
        flat = refmodel.flat_leaves(ch)
        paths = sorted(flat)
        a, kw = stored_args(tr)
        try:
            if kind == "update":
                na = [jnp.asarray(np.float32(round(float(x) + d, 2))) for x, d in zip(a, op["dargs"] + [0.0] * len(a))]
                nk = {key: jnp.asarray(np.float32(round(float(v) + op["dkw"], 2))) for key, v in kw.items()}
                S = [tuple(p) for p in op["subset"] if tuple(p) in flat]
                ra = [np.float64(np.asarray(x)) for x in na]
                rk = {key: np.float64(np.asarray(v)) for key, v in nk.items()}
                ch_new, _ = ref.sample(ra, rk, rng, given=without(ch, set(S)))
                ch_new = cast_like(ch_new, ch)
                cons = modelir.to_jnp(constraint_map(ch_new, S)) if S else None
                lp_before = r["logp"]
                tr, w, _ = impl(gf.update, tr, cons, *na, **nk)
                for p in S:
                    observed.pop(p, None)
                w = float(np.asarray(w))
                tele = (tele[0], tele[1] + w, tele[2]) if tele else (lp_before, w, 0.0)
            elif kind == "regenerate":
                g = selref.to_genjax(op["sel"])
                for p in paths:
                    if selref.selected(op["sel"], p):
                        observed.pop(p, None)
                tr, _, _ = impl(seed(gf.regenerate), k, tr, g, *a, **kw)
                tele = None
            elif kind == "mh":
                sel_paths = [p for p in paths if selref.selected(op["sel"], p) and p not in observed]
                if not sel_paths:
                    info["kinds"].append("skipped")
                    continue
                expr = _or([["tup", list(p)] for p in sel_paths])
                tr = impl(seed(lambda t: state(lambda t_: mh(t_, selref.to_genjax(expr)))(t)[0]), k, tr)
                tele = None
            elif kind in ("mala", "hmc"):
                cand = [p for p in paths if dists.get(p) in GRAD_DISTS and p not in observed]
                sel_paths = [cand[i % len(cand)] for i in op["which"]] if cand else []
                if not sel_paths:
                    info["kinds"].append("skipped")
                    continue
                g = selref.to_genjax(_or([["tup", list(p)] for p in sorted(set(sel_paths))]))
                if kind == "mala":
                    tr = impl(seed(lambda t: state(lambda t_: mala(t_, g, op["eps"]))(t)[0]), k, tr)
                else:
                    tr = impl(seed(lambda t: state(lambda t_: hmc(t_, g, op["eps"], op["L"]))(t)[0]), k, tr)
                tele = None
            elif kind == "jit":
                tr = impl(jax.jit(lambda t: t), tr)
            elif kind == "vector":
                n, how = op["n"], op["how"]
                free = [p for p in paths if p not in observed]
                gsel = selref.to_genjax(_or([["tup", list(p)] for p in free])) if free else selref.to_genjax(["none"])
                keys = jax.random.split(k, n)
                if op.get("per_lane_args") and len(a) >= 1:
                    # a vectorized trace whose lanes record *different* arguments (as after an SMC extend with per-particle
                    # arguments): update with a per-lane shift of the first argument
                    deltas = jnp.asarray(np.asarray([0.0, 0.5, -0.75, 1.25], dtype=np.float32)[:n])
                    vtr = impl(jax.vmap(lambda d: gf.update(tr, None, a[0] + d, *a[1:], **kw)[0]), deltas)
                    info["kinds"].append("vector_per_lane_args")
                else:
                    vtr = impl(jax.vmap(lambda kk: seed(gf.regenerate)(kk, tr, gsel, *a, **kw)[0]), keys)
                if how == "index":
                    tr = jax.tree_util.tree_map(lambda x: x[op["i"] % n], vtr)
                else:
                    lw = jnp.asarray(np.asarray(op["logw"] + [0.0] * n, dtype=np.float32)[:n])
                    rtr = impl(seed(lambda v, l: resample_vectorized_trace(v, l, n, method=how)), jax.random.fold_in(k, 7), vtr, lw)
                    tr = jax.tree_util.tree_map(lambda x: x[op["i"] % n], rtr)
                tele = None
            else:
                raise ValueError(kind)
        except ImplError as e:
            return [(f"step_raises[{kind}]:{e.sig()}|{F}", f"step {step} {op}: {e}")], info
        info["steps_run"] += 1
        info["kinds"].append(kind)
        fails, r = invariant(tr, kind)
        if fails:
            return [(b, f"step {step} ({op}): {m}") for b, m in fails], info
        if kind == "update" and tele is not None and np.isfinite(r["logp"]) and np.isfinite(tele[0]):
            if not gfi.close(tele[1], r["logp"] - tele[0], 4 * (abs(r["mag"]) + abs(tele[0]))):
                return [(f"telescoping|{F}", f"step {step}: sum of consecutive update weights {tele[1]} != log p(last) - log p(first) = {r['logp'] - tele[0]}")], info
        elif kind == "update" and tele is not None:
            tele = None
    return [], info


def _or(atoms):
    e = atoms[0]
    for a in atoms[1:]:
        e = ["or", e, a]
    return e


def histories(force=None, max_ops=6):
    from hypothesis import strategies as st

    delta = st.sampled_from([0.0, 0.25, -0.5, 1.0, -2.0])

    @st.composite
    def _h(draw):
        p = draw(modelir.programs(discrete=False, force=force, event_dists=["mvnormal"]))
        ref = refmodel.Ref(p["prog"])
        paths = sorted(ref.leaf_info(*gfi.ref_args(p)))
        sub = st.lists(st.sampled_from(paths), unique=True, max_size=len(paths))
        sel = st_selection(paths)
        op = st.one_of(
            st.fixed_dictionaries({"op": st.just("update"), "dargs": st.lists(delta, min_size=2, max_size=2), "dkw": delta, "subset": sub.map(lambda s: [list(q) for q in s])}),
            st.fixed_dictionaries({"op": st.just("update"), "dargs": st.lists(delta, min_size=2, max_size=2), "dkw": delta, "subset": sub.map(lambda s: [list(q) for q in s])}),
            st.fixed_dictionaries({"op": st.just("regenerate"), "sel": sel}),
            st.fixed_dictionaries({"op": st.just("mh"), "sel": sel}),
            st.fixed_dictionaries({"op": st.just("mala"), "which": st.lists(st.integers(0, 7), min_size=1, max_size=3), "eps": st.sampled_from([0.05, 0.2, 0.7])}),
            st.fixed_dictionaries({"op": st.just("hmc"), "which": st.lists(st.integers(0, 7), min_size=1, max_size=3), "eps": st.sampled_from([0.05, 0.2]), "L": st.integers(1, 3)}),
            st.fixed_dictionaries({"op": st.just("jit")}),
            st.fixed_dictionaries({"op": st.just("vector"), "n": st.integers(2, 4), "i": st.integers(0, 3), "how": st.sampled_from(["index", "categorical", "systematic"]), "per_lane_args": st.booleans(),
                                   "logw": st.lists(st.sampled_from([0.0, -1.0, -3.0, 2.0]), min_size=4, max_size=4)}),
        )
        return {**p, "key": draw(st.integers(0, 2**30)), "gen_subset": [list(q) for q in draw(sub)], "ops": draw(st.lists(op, min_size=3, max_size=max_ops))}

    return _h()


def run_shard(ctx):
    P = plan(ctx)

    def one(case):
        env.reset()
        fails, info = run_history(case)
        kinds = [k for k in info["kinds"] if k != "skipped"]
        nt = len(kinds) >= 3 and len(set(kinds)) >= 2 and bool(set(kinds) & {"mh", "mala", "hmc", "regenerate"})
        cls = [f"C05.step_{k}" for k in kinds] + [f"C05.pair_{a}>{b}" for a, b in zip(kinds, kinds[1:])] + [f"C05.prog_with_{f}" for f in sorted(modelir.features(case["prog"]))]
        ctx.case(case, nt, cls, sample={"program": case["prog"], "args": case["args"], "observed": case["gen_subset"], "ops": case["ops"], "info": info})
        ctx.count("C05.steps_total", info["steps_run"])
        for b, w in fails:
            ctx.fail(b, w, case)

    forces = ["scan", "vmap", "indicator", "cond", "vdist", "call", "condm", "detcall"]
    drive(ctx, histories(forces[ctx.shard % len(forces)], P["max_ops"]), P["n_histories"], one, "hist")
    nk = modelir.NEST_KINDS  # combinators applied directly to combinators
    drive(ctx, histories(nk[ctx.shard % len(nk)], P["max_ops"]), P.get("n_nest", max(1, P["n_histories"] // 3)), one, "nest")


def replay(case):
    return run_history(case)[0]
