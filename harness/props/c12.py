"""C12 - resampling copies particles faithfully, preserves the estimate, and is unbiased."""
import math

import numpy as np

from harness import doubles, env, gfi, stats
from harness.engine import ImplError, drive, impl
from harness.plans import plan

ID = "C12"


def make_particles(N, logw, lme):
    """A genuine vectorized trace in which every leaf of lane i encodes i."""
    import jax.numpy as jnp
    from genjax import const, gen, modular_vmap, normal
    from genjax.inference.smc import ParticleCollection

    @gen
    def tagged(i):
        a = normal(0.0, 3.0) @ "a"
        b = normal.vmap(in_axes=(0, None))(jnp.stack([i, i + 1.0]), 2.0) @ "b"
        return 100.0 + i + 0.0 * a + 0.0 * jnp.sum(b)

    def one(i):
        tr, _ = tagged.generate({"a": i * 0.5 + 0.25, "b": jnp.stack([i + 0.125, i + 1.5 + 0.01 * i])}, i)
        return tr

    traces = modular_vmap(one, in_axes=0)(jnp.arange(N, dtype=jnp.float32))
    lw = jnp.asarray(np.asarray(logw, dtype=np.float32))
    return ParticleCollection(traces=traces, log_weights=lw, diagnostic_weights=jnp.zeros(N) - 7.0, n_samples=const(N),
                              log_marginal_estimate=jnp.asarray(np.float32(lme)))


def decode_sources(in_tr, out_tr, N):
    """For every output lane the set of source lanes consistent with *every* leaf."""
    import jax

    li, lo = jax.tree_util.tree_leaves(in_tr), jax.tree_util.tree_leaves(out_tr)
    if len(li) != len(lo):
        return None, "trace structure changed"
    cands = [set(range(N)) for _ in range(N)]
    for a, b in zip(li, lo):
        a, b = np.asarray(a), np.asarray(b)
        if a.shape != b.shape or a.dtype != b.dtype:
            return None, f"leaf shape/dtype changed {a.shape}->{b.shape}"
        for k in range(N):
            cands[k] &= {j for j in range(N) if np.array_equal(a[j], b[k])}
    return cands, None


def wclass(logw):
    lw = np.asarray(logw, dtype=np.float64)
    fin = np.isfinite(lw)
    if fin.sum() == 1:
        return "degenerate"
    if not fin.all():
        return "partly_neg_inf"
    if np.ptp(lw) < 1e-3:
        return "near_uniform"
    if np.ptp(lw) <= 0.2:
        return "mildly_uneven"
    if np.ptp(lw) > 30:
        return "wide_range"
    return "generic"


def classify(case, ctx=None, n_runs=0):
    import jax
    import jax.numpy as jnp
    from genjax import seed
    import genjax.inference.smc as smc

    N, logw, method = case["N"], case["logw"][: case["N"]], case["method"]
    W = wclass(logw)
    C = f"{method}:{W}"
    fails, info = [], {"class": W}
    lw32 = np.asarray(logw, dtype=np.float32)
    lw64 = lw32.astype(np.float64)
    mx = lw64[np.isfinite(lw64)].max()
    lse = mx + math.log(np.exp(lw64 - mx).sum())
    w = np.exp(lw64 - lse)
    parts = impl(make_particles, N, logw, case["lme"])
    lml_before = float(impl(parts.log_marginal_likelihood))
    want_lml = float(np.float32(case["lme"])) + lse - math.log(N)

    def check_output(out, what):
        f = []
        lwo = np.asarray(out.log_weights)
        if lwo.shape != (N,) or np.any(lwo != 0.0):
            f.append((f"weights_not_reset:{C}", f"{what}: log_weights after resampling = {lwo.tolist()[:8]} (want {N} zeros)"))
        if out.n_samples.value != N:
            f.append((f"n_samples:{C}", f"{what}: n_samples {out.n_samples.value} != {N}"))
        cands, err = decode_sources(parts.traces, out.traces, N)
        if err:
            f.append((f"trace_structure:{C}", f"{what}: {err}"))
            return f, None
        src = []
        for k, c in enumerate(cands):
            if len(c) != 1:
                f.append((f"not_a_faithful_copy:{C}", f"{what}: output particle {k} is not a copy of exactly one input particle (leaf-wise consistent sources: {sorted(c)})"))
                return f, None
            src.append(next(iter(c)))
        counts = np.bincount(src, minlength=N)
        if np.any(counts[~np.isfinite(lw64)] > 0):
            f.append((f"zero_weight_particle_selected:{C}", f"{what}: particle(s) {np.nonzero(counts * ~np.isfinite(lw64))[0].tolist()} with log weight -inf were selected"))
        lml = float(out.log_marginal_likelihood())
        if not (abs(lml - want_lml) <= 1e-4 + 2e-6 * abs(want_lml)) or not (abs(lml - lml_before) <= 1e-4 + 2e-6 * abs(lml_before)):
            f.append((f"estimate_changed:{C}", f"{what}: log_marginal_likelihood() {lml_before} -> {lml} (reference {want_lml})"))
        dw = np.asarray(out.diagnostic_weights, dtype=np.float64)
        ref_dw = lw64 - lse
        fin = np.isfinite(ref_dw)
        if dw.shape != (N,) or np.any(np.abs(dw[fin] - ref_dw[fin]) > 1e-4 + 2e-6 * np.abs(ref_dw[fin])) or np.any(np.isfinite(dw[~fin])):
            f.append((f"diagnostic_weights:{C}", f"{what}: diagnostic_weights {dw.tolist()[:6]} != pre-resampling normalised log weights {ref_dw.tolist()[:6]}"))
        return f, counts

    # seeded run (the real randomness path)
    try:
        out = impl(seed(lambda p: smc.resample(p, method=method)), env.key(case["key"], 0), parts)
    except ImplError as e:
        return [(f"resample_raises:{e.sig()}:{C}", str(e))], info
    f, _ = check_output(out, "seeded")
    fails += f

    # systematic: scripted offsets over every cell of the breakpoint partition
    if method == "systematic" and not fails:
        cum = np.cumsum(w)
        bps = sorted({float(N * cj - i) for cj in cum[:-1] for i in range(N) if 0.0 < N * cj - i < 1.0})
        edges = [0.0] + bps + [1.0]
        probes = []
        for a, b in zip(edges, edges[1:]):
            if b - a > 4e-5:
                probes.append(((a + b) / 2, b - a, True))
                probes.append((a + 1e-5, 0.0, False))
                probes.append((b - 1e-5, 0.0, False))
        probes.append((float(np.nextafter(np.float32(1.0), np.float32(0.0))), 0.0, False))
        probes.append((1e-7, 0.0, False))
        info["offset_cells"] = len(edges) - 1
        expect = np.zeros(N)
        covered = 0.0
        slack = N * 2.0**-18 + 1e-6
        for u, width, mid in probes:
            # the scripted offset is a point of the unit interval, delivered in whatever range the code asks for
            tape = doubles.Tape(smc.uniform, fn=lambda i, a, k, u=u: jnp.asarray(np.float32(float(a[0]) + u * (float(a[1]) - float(a[0])) if len(a) >= 2 else u)), name="uniform")
            try:
                with doubles.scripted(smc, uniform=tape):
                    out = impl(smc.resample, parts, method)
            except ImplError as e:
                fails.append((f"resample_raises_scripted:{e.sig()}:{C}", f"offset {u}: {e}"))
                break
            if len(tape.requests) != 1:
                fails.append((f"offset_draws:{C}", f"systematic resampling drew {len(tape.requests)} uniforms (the property prescribes one random offset)"))
                break
            f, counts = check_output(out, f"offset u={u}")
            if f:
                fails += f
                break
            lo, hi = np.floor(N * w - slack), np.ceil(N * w + slack)
            bad = np.nonzero((counts < lo) | (counts > hi))[0]
            if bad.size:
                i = int(bad[0])
                fails.append((f"systematic_floor_ceil:{C}", f"offset u={u}: particle {i} with N*w={N * w[i]:.6f} received {int(counts[i])} copies (must be floor or ceil)"))
                break
            if mid:
                expect += width * counts
                covered += width
        if not fails and covered > 0.5:
            err = np.abs(expect / covered - N * w)
            if np.any(err > 2e-3 * N * (1 - covered) + 1e-3 + 1e-4 * N):
                i = int(np.argmax(err))
                fails.append((f"systematic_expected_copies:{C}", f"integrating the copy count over the offset gives E[copies of {i}] = {expect[i] / covered:.5f}, N*w = {N * w[i]:.5f}"))

    # unbiasedness over seeded runs: aggregated ancestor counts ~ Multinomial(R*N, w) (categorical exactly;
    # systematic has the same mean and smaller variance, so the test is conservative there)
    if n_runs and not fails and N >= 2:
        c = ctx if ctx is not None else type("C", (), {"stat_tests": 0, "stat_stage2": 0})()

        def runs(R, stage):
            keys = jax.random.split(env.key(case["key"], 50 + stage), R)
            a = jax.vmap(lambda k: seed(lambda p: smc.resample(p, method=method))(k, parts).traces.get_choices()["a"])(keys)
            src = np.rint((np.asarray(a) - 0.25) / 0.5).astype(int)  # 'a' of lane i is i*0.5+0.25
            return np.bincount(src.ravel(), minlength=N)[:N]

        def pfun(R, stage):
            return stats.chi2_p(runs(R, stage), w)

        res = stats.two_stage(c, pfun, n_runs)
        if res:
            fails.append((f"expected_copies_seeded:{C}", f"ancestor frequencies over seeded runs differ from N*w: {res}"))
    return fails, info


def cases():
    from hypothesis import strategies as st

    fin = st.floats(-30, 30, allow_nan=False, width=32)

    @st.composite
    def _c(draw):
        N = draw(st.sampled_from([1, 2, 2, 3, 3, 4, 5, 7, 8, 8, 13, 16, 32, 64]))
        kind = draw(st.sampled_from(["generic", "generic", "degenerate", "partly", "partly_tail", "near_uniform", "mild", "mild", "wide", "uniform"]))
        if kind == "generic":
            lw = [draw(st.floats(-4, 4, allow_nan=False, width=32)) for _ in range(N)]
        elif kind == "degenerate":
            j = draw(st.integers(0, N - 1))
            lw = [draw(fin) if i == j else float("-inf") for i in range(N)]
        elif kind == "partly":
            lw = [draw(st.floats(-4, 4, allow_nan=False, width=32)) if draw(st.integers(0, 2)) else float("-inf") for i in range(N)]
            if not any(math.isfinite(x) for x in lw):
                lw[draw(st.integers(0, N - 1))] = 0.5
        elif kind == "partly_tail":  # trailing zero-weight particles: the cumulative sum ends on a rounded value
            lw = [draw(st.floats(-4, 4, allow_nan=False, width=32)) for _ in range(N)]
            for i in range(max(1, N - draw(st.integers(1, 3))), N):
                lw[i] = float("-inf")
            if N == 1:
                lw = [0.25]
        elif kind == "near_uniform":
            base = draw(fin)
            lw = [base + draw(st.sampled_from([0.0, 1e-6, -1e-6, 1e-5])) for _ in range(N)]
        elif kind == "mild":  # within about +-10% of 1/N: a well-balanced but not uniform collection (ESS close to N)
            base = draw(st.floats(-3, 3, allow_nan=False, width=32))
            lw = [base + draw(st.floats(-0.09375, 0.09375, allow_nan=False, width=32)) for _ in range(N)]
        elif kind == "wide":
            lw = [draw(st.floats(-30, 30, allow_nan=False, width=32)) for _ in range(N)]
        else:
            lw = [draw(fin)] * N
        # resampling depends on the normalised weights only: a common additive shift of the log weights (tiny or huge
        # unnormalised weights, as accumulated over many SMC steps) must not change anything
        shift = draw(st.sampled_from([0.0, 0.0, 0.0, -60.0, -250.0, -1000.0, 70.0]))
        lw = [x + shift for x in lw]
        return {"shift": shift, "N": N, "logw": [float(np.float32(x)) for x in lw], "method": draw(st.sampled_from(["systematic", "categorical"])),
                "lme": draw(st.sampled_from([0.0, -3.25, 12.5])), "key": draw(st.integers(0, 2**30))}

    return _c()


def run_shard(ctx):
    P = plan(ctx)
    seen = [0]

    def one(case):
        env.reset()
        seen[0] += 1
        fails, info = [], {}
        for method in ("systematic", "categorical"):
            f, i2 = classify({**case, "method": method}, ctx, P["n_runs"] if seen[0] % P["stat_every"] == 0 else 0)
            fails += f
            info.update(i2)
            ctx.count(f"C12.{method}")
        lw = np.asarray(case["logw"][: case["N"]])
        nt = case["N"] >= 2 and np.ptp(lw[np.isfinite(lw)]) > 0 or (case["N"] >= 2 and not np.all(np.isfinite(lw)))
        key = (case["N"], [round(x, 3) if math.isfinite(x) else "-inf" for x in case["logw"][: case["N"]]])
        ctx.case(case, bool(nt), [f"C12.w_{info['class']}"] + ([f"C12.common_shift_{'down' if case['shift'] < 0 else 'up'}"] if case.get("shift") else []) + [ f"C12.N_{'1' if case['N'] == 1 else 'small' if case['N'] <= 8 else 'large'}"],
                 sample={**case, "logw": [x if math.isfinite(x) else "-inf" for x in case["logw"][: case["N"]]], "info": info}, key=key)
        ctx.count("C12.offset_cells_probed", info.get("offset_cells", 0))
        for b, w in fails:
            ctx.fail(b, w, {**case, "logw": [x if math.isfinite(x) else "-inf" for x in case["logw"]]})

    drive(ctx, cases(), P["n_cases"], one, "main")


def replay(case):
    case = {**case, "logw": [float("-inf") if x == "-inf" else x for x in case["logw"]]}
    return classify(case, None, 2000)[0]
