"""C17 - the ELBO objective is unbiased, tight at the posterior, and ascended by VI (conjugate closed forms)."""
import math

import numpy as np

from harness import env, stats
from harness.engine import ImplError, drive, impl
from harness.plans import plan

ID = "C17"


def spd(B, lam):
    B = np.asarray(B, dtype=np.float64)
    return B @ B.T + lam * np.eye(B.shape[0])


def problem(case):
    d = case["d"] if case["family"] != "two_site" else 2
    m0 = np.asarray(case["m0"][:d], dtype=np.float32).astype(np.float64)
    S0 = spd(np.asarray(case["B0"])[:d, :d], case["lam0"]).astype(np.float32).astype(np.float64)
    R = spd(np.asarray(case["BR"])[:d, :d], case["lamR"]).astype(np.float32).astype(np.float64)
    y = np.asarray(case["y"][:d], dtype=np.float32).astype(np.float64)
    if case["family"] == "two_site":  # two independent scalar latent/observation pairs
        S0, R = np.diag(np.diag(S0)), np.diag(np.diag(R))
    P = np.linalg.inv(np.linalg.inv(S0) + np.linalg.inv(R))
    m = P @ (np.linalg.inv(S0) @ m0 + np.linalg.inv(R) @ y)
    from scipy import stats as ss

    logZ = float(ss.multivariate_normal.logpdf(y, m0, S0 + R))
    return d, m0, S0, R, y, m, P, logZ


def elbo_exact(mu, Sig, m0, S0, R, y):
    d = len(mu)
    S0i, Ri = np.linalg.inv(S0), np.linalg.inv(R)
    t1 = -0.5 * (d * math.log(2 * math.pi) + np.linalg.slogdet(S0)[1] + np.trace(S0i @ Sig) + (mu - m0) @ S0i @ (mu - m0))
    t2 = -0.5 * (d * math.log(2 * math.pi) + np.linalg.slogdet(R)[1] + np.trace(Ri @ Sig) + (y - mu) @ Ri @ (y - mu))
    H = 0.5 * (d * (1 + math.log(2 * math.pi)) + np.linalg.slogdet(Sig)[1])
    return float(t1 + t2 + H)


def q_of(case, params_flat):
    """(mu, Sigma) of the variational family for a flat parameter vector"""
    d = case["d"]
    if case["family"] in ("mean_field", "two_site"):
        mu, ls = params_flat[:d], params_flat[d:]
        return np.asarray(mu), np.diag(np.exp(2 * np.asarray(ls)))
    if case["family"] in ("shared_mean", "per_site"):  # vectorized scalar sites: one shared location (or one each), a scale per coordinate
        k = 1 if case["family"] == "shared_mean" else d
        mu = np.full(d, params_flat[0]) if k == 1 else np.asarray(params_flat[:d])
        return mu, np.diag(np.exp(2 * np.asarray(params_flat[k:k + d])))
    mu = np.asarray(params_flat[:d])
    L = np.asarray(params_flat[d:]).reshape(d, d)
    return mu, L @ L.T


def to_params(case, flat):
    import jax.numpy as jnp

    d = case["d"]
    flat = np.asarray(flat, dtype=np.float32)
    if case["family"] in ("mean_field", "two_site", "shared_mean", "per_site"):
        return jnp.asarray(flat)
    return {"mean": jnp.asarray(flat[:d]), "chol_cov": jnp.asarray(flat[d:].reshape(d, d))}


def flat_of(case, tree):
    if case["family"] in ("mean_field", "two_site", "shared_mean", "per_site"):
        return np.asarray(tree, dtype=np.float64)
    return np.concatenate([np.asarray(tree["mean"], dtype=np.float64).ravel(), np.asarray(tree["chol_cov"], dtype=np.float64).ravel()])


def build(case):
    import jax.numpy as jnp
    from genjax import gen, multivariate_normal
    from genjax.inference.vi import elbo_factory, full_covariance_normal_family, mean_field_normal_family

    d, m0, S0, R, y, m, P, logZ = problem(case)

    @gen
    def target():
        x = multivariate_normal(jnp.asarray(m0, dtype=jnp.float32), jnp.asarray(S0, dtype=jnp.float32)) @ "x"
        multivariate_normal(x, jnp.asarray(R, dtype=jnp.float32)) @ "y"
        return x

    if case["family"] == "two_site":
        from genjax import normal
        from genjax.adev import normal_reinforce, normal_reparam

        est = {"reparam": normal_reparam, "reinforce": normal_reinforce}
        e1, e2 = case["estimator"].split("+")

        @gen
        def target2():
            a = normal(float(m0[0]), float(np.sqrt(S0[0, 0]))) @ "a"
            b = normal(float(m0[1]), float(np.sqrt(S0[1, 1]))) @ "b"
            normal(a, float(np.sqrt(R[0, 0]))) @ "ya"
            normal(b, float(np.sqrt(R[1, 1]))) @ "yb"
            return a + b

        @gen
        def fam2(constraint, params):
            est[e1](params[0], jnp.exp(params[2])) @ "a"
            est[e2](params[1], jnp.exp(params[3])) @ "b"

        cons2 = {"ya": jnp.asarray(np.float32(y[0])), "yb": jnp.asarray(np.float32(y[1]))}
        return target2, fam2, cons2, elbo_factory(target2, fam2, cons2, ())
    if case["family"] in ("shared_mean", "per_site"):
        # a user-written family built from *vectorized scalar* ADEV sites: location shared by all coordinates (in_axes None) or
        # one per coordinate, a scale per coordinate; the target couples the coordinates through its covariances
        from genjax.adev import normal_reinforce, normal_reparam

        site = {"reparam": normal_reparam, "reinforce": normal_reinforce}[case["estimator"]]
        shared = case["family"] == "shared_mean"

        @gen
        def fam_v(constraint, params):
            if shared:
                site.vmap(in_axes=(None, 0))(params[0], jnp.exp(params[1:1 + d])) @ "x"
            else:
                site.vmap(in_axes=(0, 0))(params[:d], jnp.exp(params[d:2 * d])) @ "x"

        cons = {"y": jnp.asarray(y, dtype=jnp.float32)}
        return target, fam_v, cons, elbo_factory(target, fam_v, cons, ())
    fam = (mean_field_normal_family if case["family"] == "mean_field" else full_covariance_normal_family)(d, case["estimator"])
    cons = {"y": jnp.asarray(y, dtype=jnp.float32)}
    return target, fam, cons, elbo_factory(target, fam, cons, ())


def classify(case, ctx=None, n1=4000):
    import jax
    import jax.numpy as jnp
    from genjax import seed
    from genjax.inference.vi import elbo_vi, optimize_vi

    d, m0, S0, R, y, m, P, logZ = problem(case)
    C = f"{case['family']}:{case['estimator']}:d{d}"
    mf = case["family"] in ("mean_field", "two_site", "shared_mean", "per_site")
    if case["family"] in ("shared_mean", "per_site"):
        n1 = 4 * n1  # the effect of coordinates sharing noise is of second order in the scales: more draws (cheap, one vmapped jit)
    fails, info = [], {"log_evidence": logZ}
    c = ctx if ctx is not None else type("C", (), {"stat_tests": 0, "stat_stage2": 0})()
    try:
        target, fam, cons, elbo = impl(build, case)
        # 1. tight at the posterior: exact for every draw
        if case["family"] == "full_cov" or (np.allclose(P, np.diag(np.diag(P)), atol=1e-9) and case["family"] != "shared_mean"):
            if case["family"] == "full_cov":
                post_flat = np.concatenate([m, np.linalg.cholesky(P).ravel()])
            else:
                post_flat = np.concatenate([m, 0.5 * np.log(np.diag(P))])
            pp = to_params(case, post_flat)
            for i in range(4):
                v = float(impl(seed(elbo.estimate), env.key(case["key"], i), pp))
                if abs(v - logZ) > 3e-3 + 1e-3 * abs(logZ):
                    fails.append((f"not_tight_at_posterior:{C}", f"q = exact posterior: elbo.estimate = {v} for key {i}, log p(y) = {logZ}"))
                    break
            info["posterior_checked"] = True
        # 2./3. unbiased value and gradient at a generic q
        npar = (1 + d) if case["family"] == "shared_mean" else (2 * d if mf else d + d * d)
        flat = np.asarray(case["params"][:npar], dtype=np.float32).astype(np.float64)
        if case["family"] == "full_cov":
            M = flat[d:].reshape(d, d)  # a Cholesky factor has a positive diagonal (a zero entry makes q singular: not a density)
            L = np.tril(M, -1) + np.diag(0.4 + np.abs(np.diag(M)))
            flat = np.concatenate([flat[:d], L.ravel()])
        flat = flat.astype(np.float32).astype(np.float64)
        mu, Sig = q_of(case, flat)
        E = elbo_exact(mu, Sig, m0, S0, R, y)
        info["elbo_exact"] = E

        def f_exact(v):
            a, b = q_of(case, v)
            return elbo_exact(a, b, m0, S0, R, y)

        G = np.zeros_like(flat)
        for i in range(len(flat)):
            h = 1e-4
            a, b = flat.copy(), flat.copy()
            a[i] += h
            b[i] -= h
            G[i] = (f_exact(a) - f_exact(b)) / (2 * h)
        pj = to_params(case, flat)

        def one(k):
            v = seed(elbo.estimate)(k, pj)
            g = seed(elbo.grad_estimate)(jax.random.fold_in(k, 1), pj)
            return v, g

        bs = jax.jit(jax.vmap(one))
        cache = {}

        def draw(n, stage):
            if stage not in cache:
                v, g = impl(bs, jax.random.split(env.key(case["key"], 10 + stage), n))
                gf = np.stack([flat_of(case, jax.tree_util.tree_map(lambda x: x[i], g)) for i in range(n)]) if not mf else np.asarray(g, dtype=np.float64)
                cache[stage] = (np.asarray(v, dtype=np.float64), gf)
            return cache[stage]

        def pv(n, stage):
            v, _ = draw(n, stage)
            return stats.block_mean_t_p(v, E)

        res = stats.two_stage(c, pv, n1)
        if res:
            fails.append((f"elbo_value_biased:{C}", f"mean of elbo.estimate differs from the analytic ELBO {E} (log evidence {logZ}): {res}"))
        if E > logZ + 1e-6:
            raise RuntimeError("reference ELBO above evidence: oracle bug")

        def pg(n, stage):
            _, g = draw(n, stage)
            ps = [(stats.block_mean_t_p(g[:, i], G[i])[0], i) for i in range(g.shape[1])]
            p, i = min(ps)
            return min(1.0, p * len(ps)), {"component": int(i), "mean": float(g[:, i].mean()), "ref": float(G[i])}

        res = stats.two_stage(c, pg, n1)
        if res:
            fails.append((f"elbo_grad_biased:{C}", f"mean of elbo.grad_estimate differs from the gradient of the analytic ELBO: {res}"))
        # 4. optimisation with a stochastic ELBO: structure, and E[first iterate] = theta + lr * grad
        if not fails and mf:
            lr, nit = case["lr"], case["n_iter"]
            va = impl(seed(lambda p: elbo_vi(target, fam, p, cons, (), lr, nit)), env.key(case["key"], 3), pj)
            ph = np.asarray(va.param_history)
            if ph.shape != (nit, len(flat)):
                fails.append((f"history_shape:{C}", f"param_history shape {ph.shape} != ({nit}, {len(flat)})"))
            elif not np.array_equal(np.asarray(va.final_params), ph[-1], equal_nan=True):  # a diverged run ends in nan for both
                fails.append((f"final_not_last_iterate:{C}", "final_params != param_history[-1]"))
            elif not np.all(np.isfinite(ph)):
                info["diverged"] = True  # stochastic ascent may diverge (score-function steps on exp(log sd)); nothing is claimed about that
            else:
                b1 = jax.jit(jax.vmap(lambda k: seed(lambda p: elbo_vi(target, fam, p, cons, (), lr, 1))(k, pj).param_history[0]))

                def p1(n, stage):
                    x = np.asarray(impl(b1, jax.random.split(env.key(case["key"], 60 + stage), n)), dtype=np.float64)
                    ps = [(stats.block_mean_t_p(x[:, i], flat[i] + lr * G[i])[0], i) for i in range(x.shape[1])]
                    p, i = min(ps)
                    return min(1.0, p * len(ps)), {"component": int(i), "mean": float(x[:, i].mean()), "ref": float(flat[i] + lr * G[i]), "start": float(flat[i])}

                res = stats.two_stage(c, p1, n1)
                if res:
                    fails.append((f"vi_step_not_ascent:{C}", f"E[first iterate] != params + learning_rate * gradient of the ELBO: {res}"))
    except ImplError as e:
        fails.append((f"raises:{e.sig()}:{C}", str(e)))
    return fails, info


def _is_free(case, i):
    """full-cov family: the upper triangle of chol_cov has a well-defined gradient too (cov = L L^T for any L)."""
    return True


def classify_exact_recursion(case):
    """optimize_vi on a sampling-free objective: the whole history equals the numpy gradient-ascent recursion."""
    import jax
    import jax.numpy as jnp
    from genjax import seed
    from genjax.adev import expectation, flip_enum
    from genjax.inference.vi import optimize_vi

    a = np.asarray(case["a"], dtype=np.float32)
    th0 = np.asarray(case["theta0"], dtype=np.float32)
    sc = float(case.get("scale", 1.0))  # objective scale: steep (1e4) and flat (1e-3) objectives with lr rescaled accordingly
    lr, nit, kind = case["lr"] / sc, case["n_iter"], case["objective"]
    C = f"exact_recursion:{kind}" + (f":scale{sc:g}" if sc != 1.0 else "")
    fails = []

    if kind == "quadratic":
        @expectation
        def obj(th):
            return sc * (-jnp.sum((th - jnp.asarray(a)) ** 2) + jnp.sum(jnp.sin(th)))

        def grad(t):
            return sc * (-2 * (t - a.astype(np.float64)) + np.cos(t))
    else:  # enumeration-only objective: zero-variance gradient through flip_enum
        @expectation
        def obj(th):
            b = flip_enum(jax.nn.sigmoid(th[0]))
            return sc * jnp.where(b, th[1] * 2.0, -th[1] ** 2) + 0.0 * jnp.sum(th)

        def grad(t):
            s = 1 / (1 + np.exp(-t[0]))
            g = np.zeros_like(t)
            g[0] = s * (1 - s) * (t[1] * 2.0 + t[1] ** 2)
            g[1] = s * 2.0 + (1 - s) * (-2 * t[1])
            return sc * g

    try:
        va = impl(seed(lambda p: optimize_vi(obj, p, lr, nit)), env.key(case["key"], 0), jnp.asarray(th0))
    except ImplError as e:
        return [(f"raises:{e.sig()}:{C}", str(e))], {}
    ph = np.asarray(va.param_history, dtype=np.float64)
    t = th0.astype(np.float64)
    want = []
    for _ in range(nit):
        t = t + lr * grad(t)
        want.append(t.copy())
    want = np.asarray(want)
    if ph.shape != want.shape:
        fails.append((f"history_shape:{C}", f"{ph.shape} != {want.shape} (n_iterations={nit})"))
    elif not np.allclose(ph, want, rtol=2e-4, atol=2e-4):
        i = int(np.argmax(np.max(np.abs(ph - want), axis=1)))
        fails.append((f"history_not_gradient_ascent:{C}", f"iterate {i}: {ph[i].tolist()} != params + lr*grad recursion {want[i].tolist()} (lr={lr}, start {th0.tolist()}, first iterate {ph[0].tolist()} vs {want[0].tolist()})"))
    elif not np.array_equal(np.asarray(va.final_params), np.asarray(va.param_history)[-1], equal_nan=True):
        fails.append((f"final_not_last_iterate:{C}", ""))
    if va.n_iterations.value != nit:
        fails.append((f"n_iterations:{C}", f"{va.n_iterations.value} != {nit}"))
    return fails, {}


FAMILIES = ["mean_field", "full_cov", "two_site", "shared_mean", "per_site", "mean_field", "shared_mean", "full_cov"]


def cases(family=None, estimator=None, only=None):
    """family / estimator: fixed by the caller (the shards cycle through them - Hypothesis does not draw uniformly from
    sampled_from in a handful of examples); only: 'conjugate' | 'recursion' | None (mixed)."""
    from hypothesis import strategies as st

    f = lambda lo, hi: st.floats(lo, hi, allow_nan=False).map(lambda x: round(x, 2))  # noqa: E731
    mat = st.lists(st.lists(f(-0.8, 0.8), min_size=3, max_size=3), min_size=3, max_size=3)
    conj = st.fixed_dictionaries({"kind": st.just("conjugate"), "d": st.sampled_from([2, 3, 2]) if family in ("shared_mean", "per_site", "full_cov") else st.integers(1, 3), "m0": st.lists(f(-1, 1), min_size=3, max_size=3), "B0": mat, "lam0": st.sampled_from([0.5, 1.0]),
                                  "BR": mat, "lamR": st.sampled_from([0.3, 0.8]), "y": st.lists(f(-1.5, 1.5), min_size=3, max_size=3),
                                  "family": st.just(family) if family else st.sampled_from(["mean_field", "mean_field", "full_cov", "two_site", "shared_mean", "per_site"]),
                                  "estimator": st.just(estimator) if estimator else st.sampled_from(["reparam", "reinforce"]),
                                  "pair": st.sampled_from(["reinforce+reinforce", "reparam+reinforce", "reinforce+reparam"]),
                                  "params": st.lists(f(-0.6, 0.6), min_size=12, max_size=12), "lr": st.sampled_from([0.01, 0.05]), "n_iter": st.integers(2, 6), "key": st.integers(0, 2**30)})
    rec = st.fixed_dictionaries({"kind": st.just("recursion"), "objective": st.sampled_from(["quadratic", "enum"]), "a": st.lists(f(-1, 1), min_size=2, max_size=2),
                                 "theta0": st.lists(f(-1, 1), min_size=2, max_size=2), "lr": st.sampled_from([0.01, 0.1, 0.3]), "scale": st.sampled_from([1.0, 1.0, 1e4, 1e-3]), "n_iter": st.integers(1, 20), "key": st.integers(0, 2**30)})
    if only == "conjugate":
        return conj
    if only == "recursion":
        return rec
    return st.one_of(conj, conj, rec)


def one_case(ctx, case):
    P = plan(ctx)
    env.reset()
    if case["kind"] == "conjugate" and case["family"] == "two_site" and "+" not in case["estimator"]:
        case = {**case, "estimator": case.get("pair", "reinforce+reinforce"), "d": 2}
    if case["kind"] == "conjugate":
        fails, info = classify(case, ctx, P["n1"])
        cls = [f"C17.family_{case['family']}", f"C17.estimator_{case['estimator']}", f"C17.d{case['d']}"] + (["C17.posterior_tightness_checked"] if info.get("posterior_checked") else []) + (["C17.stochastic_run_diverged_not_compared"] if info.get("diverged") else [])
        nt = True
    else:
        fails, info = classify_exact_recursion(case)
        cls = [f"C17.recursion_{case['objective']}"] + ([f"C17.recursion_scale_{case['scale']:g}"] if case.get("scale", 1.0) != 1.0 else [])
        nt = case["n_iter"] >= 2
    ctx.case(case, nt, cls, sample={**case, "info": info})
    for b, w in fails:
        ctx.fail(b, w, case)


def run_shard(ctx):
    P = plan(ctx)
    n = P["n_cases"]
    fam = FAMILIES[ctx.shard % len(FAMILIES)]
    est = ["reparam", "reinforce"][(ctx.shard // len(FAMILIES) + ctx.seed) % 2]
    drive(ctx, cases(fam, est, "conjugate"), max(1, n // 2), lambda c: one_case(ctx, c), "conj_forced")
    drive(ctx, cases(only="conjugate"), max(1, n // 4), lambda c: one_case(ctx, c), "conj")
    drive(ctx, cases(only="recursion"), max(1, n - n // 2 - n // 4), lambda c: one_case(ctx, c), "rec")


def replay(case):
    if case["kind"] == "conjugate" and case["family"] == "two_site" and "+" not in case["estimator"]:
        case = {**case, "estimator": case.get("pair", "reinforce+reinforce"), "d": 2}
    return (classify(case, None, 4000) if case["kind"] == "conjugate" else classify_exact_recursion(case))[0]
