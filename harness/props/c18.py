"""C18 - chain returns exactly the burnt-in, thinned kernel iterates and diagnostics (grid enumeration)."""
import itertools

import numpy as np

from harness import env
from harness.engine import ImplError, impl
from harness.plans import plan

ID = "C18"


def targets():
    import jax
    import jax.numpy as jnp
    from genjax import categorical, flip, gen, normal, sel
    from genjax.inference import hmc, mala, mh
    from genjax.state import namespace, save

    @gen
    def t_cont(mu):
        x = normal(mu, 1.0) @ "x"
        z = normal(x, 2.0) @ "z"
        normal(x + z, 0.5) @ "y"
        return x

    @gen
    def t_vec(mu):
        v = normal.vmap(in_axes=(0, None))(jnp.stack([mu, mu + 1.0, mu - 1.0]), 1.0) @ "v"
        normal(jnp.sum(v), 0.7) @ "y"
        return v

    @gen
    def t_disc(p):
        k = categorical(jnp.log(jnp.stack([p, 0.3, 0.7 - p]))) @ "k"
        flip(0.2 + 0.3 * k.astype(jnp.float32)) @ "w"
        return k

    def composite(tr):
        tr = namespace(lambda t: mh(t, sel("x")), "first")(tr)
        save(x_now=tr.get_choices()["x"], b_flag=tr.get_choices()["x"] > 0.0)  # diagnostics saved before `accept`, not in alphabetical order
        tr = mala(tr, sel("z"), 0.4)
        save(score=tr.get_score())
        return tr

    def inner_scan(tr):
        # a composite kernel that runs its sub-moves in an inner lax.scan and saves only inside it
        out, _ = jax.lax.scan(lambda t, _: (mh(t, sel("x") | sel("z")), None), tr, jnp.arange(3))
        return out

    return {
        "cont_inner_scan": (t_cont, (0.3,), {"y": 1.2}, inner_scan, ["x", "z"], None),
        "cont_mh": (t_cont, (0.3,), {"y": 1.2}, lambda t: mh(t, sel("x")), ["x"], True),
        "cont_mala": (t_cont, (0.3,), {"y": 1.2}, lambda t: mala(t, sel("x") | sel("z"), 0.3), ["x", "z"], True),
        "cont_hmc": (t_cont, (0.3,), {"y": 1.2}, lambda t: hmc(t, sel("z"), 0.2, 3), ["z"], True),
        "cont_composite": (t_cont, (0.3,), {"y": 1.2}, composite, ["x", "z"], None),
        "vec_mala": (t_vec, (0.1,), {"y": 0.4}, lambda t: mala(t, sel("v"), 0.3), ["v"], True),
        "vec_hmc": (t_vec, (0.1,), {"y": 0.4}, lambda t: hmc(t, sel("v"), 0.15, 2), ["v"], True),
        "disc_mh": (t_disc, (0.25,), {"w": True}, lambda t: mh(t, sel("k")), ["k"], False),
    }


def leaves(tree):
    import jax

    return [np.asarray(x) for x in jax.tree_util.tree_leaves(tree)]


class Runner:
    def __init__(self, name, key):
        import jax.numpy as jnp
        from genjax import seed
        from genjax.inference import chain

        self.name = name
        gf, args, obs, kernel, moved, cont = targets()[name]
        self.gf, self.args, self.moved, self.cont = gf, args, moved, cont
        cons = {k: jnp.asarray(v) for k, v in obs.items()}
        self.obs = obs
        self.tr0, _ = seed(gf.generate)(env.key(key, 0), cons, *[jnp.asarray(a, dtype=jnp.float32) for a in args])
        self.chain = chain(kernel)
        self.key = env.key(key, 1)
        self.full = {}

    def run(self, n, b, t, c):
        from genjax import const, seed

        return seed(self.chain)(self.key, self.tr0, const(n), burn_in=const(b), autocorrelation_resampling=const(t), n_chains=const(c))

    def get_full(self, n, c):
        if (n, c) not in self.full:
            self.full[(n, c)] = impl(self.run, n, 0, 1, c)
        return self.full[(n, c)]


def check_full(R, n, c):
    """The un-thinned run is a kernel iteration from the initial trace (successor consistency)."""
    import jax
    import jax.numpy as jnp

    fails = []
    F = R.get_full(n, c)
    C = f"{R.name}:c{'1' if c == 1 else '>1'}"
    ch = jax.tree_util.tree_map(np.asarray, F.traces.get_choices())
    acc = np.asarray(F.accepts)
    lead = (n,) if c == 1 else (c, n)
    if acc.shape[: len(lead)] != lead or (R.name != "cont_inner_scan" and acc.shape != lead) or (R.name == "cont_inner_scan" and acc.shape != lead + (3,)):
        return [(f"full.accepts_shape:{C}", f"accepts shape {acc.shape}: expected leading axes {lead}{' + (3,) (three saved sub-moves per step)' if R.name == 'cont_inner_scan' else ''}")]
    for a, v in ch.items():
        if v.shape[: len(lead)] != lead:
            return [(f"full.leading_axes:{C}", f"choices['{a}'] shape {v.shape}: expected leading axes {lead} (chains, steps)")]
    init = {a: np.asarray(v) for a, v in R.tr0.get_choices().items()}
    sc_fn = lambda t: t.get_score()  # noqa: E731
    as_fn = lambda x: R.gf.assess(x, *[jnp.asarray(a, dtype=jnp.float32) for a in R.args])[0]  # noqa: E731
    jch = F.traces.get_choices()
    scores = np.asarray(jax.vmap(sc_fn)(F.traces) if c == 1 else jax.vmap(jax.vmap(sc_fn))(F.traces))
    logps = np.asarray(jax.vmap(as_fn)(jch) if c == 1 else jax.vmap(jax.vmap(as_fn))(jch))
    for ci in range(c):
        sel = (lambda v: v) if c == 1 else (lambda v, ci=ci: v[ci])
        prev = init
        for i in range(n):
            cur = {a: sel(v)[i] for a, v in ch.items()}
            for a in cur:
                if a not in R.moved and not np.array_equal(cur[a], prev[a]):
                    fails.append((f"full.unselected_changed:{C}", f"step {i}: address {a} not selected by the kernel changed"))
            changed = any(not np.array_equal(cur[a], prev[a]) for a in R.moved)
            ac = bool(np.any(sel(acc)[i]))
            if R.cont is True and changed != ac:
                fails.append((f"full.accepts_vs_state_change:{C}", f"chain {ci} step {i}: accepts[{i}]={ac} but the state {'changed' if changed else 'did not change'} relative to the previous retained state (first state must be one kernel step after the initial trace)"))
            if R.cont is None and R.name == "cont_inner_scan" and changed != ac:
                fails.append((f"full.accepts_vs_state_change:{C}", f"chain {ci} step {i}: saved sub-move accepts {np.asarray(sel(acc)[i]).tolist()} but the state {'changed' if changed else 'did not change'}"))
            if R.name == "cont_composite":
                # the composite kernel saves its top-level `accept` from the mala move on z (the mh move on x saves under a
                # namespace, a score diagnostic is saved after it): accepts[i] must be that flag, not another saved value
                z_changed = not np.array_equal(cur["z"], prev["z"])
                if z_changed != ac:
                    fails.append((f"full.accepts_vs_state_change:{C}", f"chain {ci} step {i}: accepts[{i}]={ac} but the address moved by the kernel that saves `accept` {'changed' if z_changed else 'did not change'}"))
            if R.cont is False and changed and not ac:
                fails.append((f"full.accepts_vs_state_change:{C}", f"chain {ci} step {i}: state changed although accepts[{i}] is False"))
            lp = float(sel(logps)[i])
            sc = float(sel(scores)[i])
            if abs(float(lp) + sc) > 1e-3 + 1e-5 * abs(sc):
                fails.append((f"full.incoherent_state:{C}", f"chain {ci} step {i}: score {sc} != -assess {-float(lp)}"))
            for a, v in R.obs.items():
                if not np.array_equal(cur[a], np.asarray(v, dtype=cur[a].dtype)):
                    fails.append((f"full.observed_changed:{C}", f"step {i}: observed {a} changed"))
            prev = cur
            if fails:
                return fails
    if c > 1:
        for a in R.moved:
            v = ch[a]
            for i, j in itertools.combinations(range(c), 2):
                if R.cont is not False and np.array_equal(v[i], v[j]):
                    fails.append((f"full.chains_identical:{C}", f"chains {i} and {j} have identical '{a}' trajectories over {n} steps (not independent randomness)"))
    return fails


def check_cell(R, n, b, t, c):
    fails = []
    C = f"{R.name}:c{'1' if c == 1 else '>1'}"
    F = R.get_full(n, c)
    try:
        G = impl(R.run, n, b, t, c)
    except ImplError as e:
        return [(f"raises:{e.sig()}:{C}", f"n={n} burn_in={b} thinning={t} chains={c}: {e}")]
    idx = list(range(b, n, t))
    ax = 0 if c == 1 else 1
    lf, lg = leaves(F.traces), leaves(G.traces)
    if len(lf) != len(lg):
        return [(f"structure:{C}", "trace structure differs between thinned and un-thinned run")]
    where = f"n={n} burn_in={b} thinning={t} chains={c}"
    for a, g in zip(lf, lg):
        want = np.take(a, idx, axis=ax) if a.ndim > ax else a
        if g.shape != want.shape or not np.array_equal(g, want, equal_nan=True):
            fails.append((f"traces_not_the_slice:{C}", f"{where}: a trace leaf of shape {g.shape} is not the un-thinned run's [{b}::{t}] slice (shape {want.shape})"))
            break
    fa, ga = np.asarray(F.accepts), np.asarray(G.accepts)
    want = np.take(fa, idx, axis=ax)
    if ga.shape != want.shape or not np.array_equal(ga, want):
        fails.append((f"accepts_not_the_slice:{C}", f"{where}: accepts {ga.tolist()} != un-thinned accepts[{b}::{t}] {want.tolist()}"))
    if G.n_steps.value != len(idx):
        fails.append((f"n_steps:{C}", f"{where}: n_steps {G.n_steps.value} != {len(idx)} retained states"))
    if G.n_chains.value != c:
        fails.append((f"n_chains:{C}", f"{where}: n_chains {G.n_chains.value}"))
    rate = np.asarray(G.acceptance_rate, dtype=np.float64)
    if rate.shape != () or abs(float(rate) - float(np.mean(ga.astype(np.float64)))) > 1e-5:
        fails.append((f"acceptance_rate:{C}", f"{where}: acceptance_rate {rate.tolist()} != mean of the retained accepts {float(np.mean(ga))}"))
    return fails


def grid(P):
    cells = []
    for n in range(1, P["max_n"] + 1):
        for b in range(0, n):
            for t in range(1, P["max_thin"] + 1):
                cells.append((n, b, t))
    return cells


def run_shard(ctx):
    P = plan(ctx)
    names = P["targets"]
    cells = grid(P)
    units = [(name, c, n) for name in names for c in P["chains"] for n in range(1, P["max_n"] + 1)]
    # heavier units (large n) first, round-robin over shards
    units.sort(key=lambda u: -u[2])
    mine = [u for i, u in enumerate(units) if i % ctx.nshards == ctx.shard]
    runners = {}
    for name, c, n in mine:
        env.reset()
        R = runners.setdefault(name, Runner(name, ctx.seed))
        base = {"target": name, "n_steps": n, "n_chains": c, "key": ctx.seed}
        try:
            for bkt, w in impl(check_full, R, n, c):
                ctx.fail(bkt, w, {**base, "burn_in": 0, "thinning": 1})
            ctx.count("C18.full_runs_checked")
        except ImplError as e:
            ctx.fail(f"raises_full:{e.sig()}:{name}", f"{base}: {e}", {**base, "burn_in": 0, "thinning": 1})
            continue
        for b in range(0, n):
            for t in range(1, P["max_thin"] + 1):
                case = {**base, "burn_in": b, "thinning": t}
                try:
                    fails = check_cell(R, n, b, t, c)
                except ImplError as e:
                    fails = [(f"raises:{e.sig()}:{name}", f"{case}: {e}")]
                ctx.case(case, b > 0 or t > 1, [f"C18.target_{name}", f"C18.chains_{c}"], sample=case)
                for bkt, w in fails:
                    ctx.fail(bkt, w, case)
        R.full.clear()
    ctx.distinct_by_construction += 0


def replay(case):
    R = Runner(case["target"], case["key"])
    return check_full(R, case["n_steps"], case["n_chains"]) + check_cell(R, case["n_steps"], case["burn_in"], case["thinning"], case["n_chains"])
