"""C07 - every sample site of a seeded run gets its own independent randomness."""
import numpy as np
from scipy import stats as ss

from harness import env, seedir, stats
from harness.engine import ImplError, drive, impl
from harness.plans import plan

ID = "C07"


def flatten(res):
    """dict position -> array  ==> (names list, 1-D value vector); leading batch axis (if any) preserved by caller."""
    names, cols = [], []
    for p in sorted(res):
        a = np.asarray(res[p])
        for idx in np.ndindex(a.shape):
            names.append(p + (str(list(idx)) if idx else ""))
            cols.append(a[idx])
    return names, np.asarray(cols, dtype=np.float64)


def flatten_batch(res, n):
    names, cols = [], []
    for p in sorted(res):
        a = np.asarray(res[p])
        for idx in np.ndindex(a.shape[1:]):
            names.append(p + (str(list(idx)) if idx else ""))
            cols.append(a[(slice(None),) + idx])
    return names, np.stack(cols, axis=1).astype(np.float64)  # [n, P]


def dist_of(node, path_tokens):
    """distribution kind of the site a position belongs to (walk the shape along the position's path)."""
    return None


def site_dists(node, prefix=""):
    """{position prefix: dist} following seedir.build's naming."""
    k = node[0]
    if k == "site":
        return {prefix: node[1]}
    out = {}
    if k == "seq":
        for i, c in enumerate(node[1]):
            out.update(site_dists(c, prefix + f"/{i}"))
    elif k == "scan":
        out.update(site_dists(node[2], prefix + "/scan"))
    elif k == "vmap":
        out.update(site_dists(node[2], prefix + "/vmap"))
    elif k == "cond":
        out.update(site_dists(node[1], prefix + "/cond0"))
        out.update(site_dists(node[2], prefix + "/cond1"))
    elif k == "gen":
        out.update(_gen_dists(node[1], prefix + "/gen", [0]))
    elif k == "nseed":
        out.update(site_dists(node[1], prefix + "/nseed"))
    return out


def _gen_dists(node, prefix, counter):
    k = node[0]
    if k == "site":
        n = counter[0]
        counter[0] += 1
        return {prefix + f"/a{n}": node[1]}
    if k == "seq":
        out = {}
        for i, c in enumerate(node[1]):
            out.update(_gen_dists(c, prefix + f"/{i}", counter))
        return out
    counter[0] += seedir.n_sites(node) if False else 0
    return site_dists(node, prefix)


def classify(case, ctx=None, n1=4000):
    import jax
    from genjax import seed

    shape = case["shape"]
    ks = sorted({"+".join(k) or "top" for k in seedir.kinds(shape)})
    K = "|" + "+".join(sorted({x for k in seedir.kinds(shape) for x in k})) if any(seedir.kinds(shape)) else "|top"
    fails, info = [], {"kinds": ks}
    f0 = impl(seedir.build, shape)
    if "nseed" in str(shape):
        # nested seeds: the inner key is an argument, derived by the caller from the outer key (a distinct stream)
        def f(key):
            return seed(lambda ik: f0(1.0, ik))(key, jax.random.fold_in(key, 12345))
    else:
        def f(key):
            return seed(f0)(key)
    dists = site_dists(shape)

    def dist_for(name):
        base = name.split("[")[0]
        cands = [p for p in dists if base == p or base.startswith(p)]
        if not cands:
            raise RuntimeError(f"C07 harness: no site for position {name} among {sorted(dists)}")
        return dists[max(cands, key=len)]

    # (i) within one execution: all draws pairwise distinct (4-key rule)
    try:
        runs = [impl(f, env.key(case["key"], i)) for i in range(4)]
    except ImplError as e:
        return [(f"raises:{e.sig()}{K}", str(e))], info
    names, v0 = flatten(runs[0])
    info["positions"] = len(names)
    vals = [flatten(r)[1] for r in runs]

    def dup_pairs(v):
        order = np.argsort(v)
        out = set()
        for a, b in zip(order, order[1:]):
            if v[a] == v[b] and v[a] != 0.0:
                out.add((min(a, b), max(a, b)))
        return out

    # a position whose value is the same under all 4 keys does not draw from the key's stream at all
    same = [j for j in range(len(names)) if all(v.shape == vals[0].shape and v[j] == vals[0][j] for v in vals[1:]) and vals[0][j] != 0.0]
    if same:
        fails.append((f"draw_independent_of_key{K}", f"position {names[same[0]]} returns {vals[0][same[0]]} under each of 4 different keys"))
    common = set.intersection(*[dup_pairs(v) for v in vals]) if len(names) > 1 else set()
    if common:
        a, b = sorted(common)[0]
        fails.append((f"equal_draws{K}", f"positions {names[a]} and {names[b]} return equal values under each of 4 keys (e.g. {vals[0][a]}): shared randomness"))
    # (ii)/(iii) over a batch of keys: marginals and pairwise independence
    if not fails and n1:
        c = ctx if ctx is not None else type("C", (), {"stat_tests": 0, "stat_stage2": 0})()
        bs = jax.jit(jax.vmap(f))
        cache = {}

        def batch(n, stage):
            if stage not in cache:
                res = impl(bs, jax.random.split(env.key(case["key"], 10 + stage), n))
                nm, M = flatten_batch(res, n)
                U = np.empty_like(M)
                for j, name in enumerate(nm):
                    U[:, j] = ss.norm.cdf(M[:, j]) if dist_for(name).startswith("normal") else M[:, j]
                cache[stage] = (nm, M, U)
            return cache[stage]

        nm, M, U = batch(n1, 1)
        P = len(nm)
        taken = M != 0.0
        # marginals
        for j in range(P):
            def pfun(n, stage, j=j):
                _, M_, U_ = batch(n, stage)
                col = U_[:, j][M_[:, j] != 0.0]
                return (stats.ks_uniform_p(col) if col.size >= 50 else 1.0), {"pos": nm[j], "n": int(col.size)}

            res = stats.two_stage(c, pfun, n1, alpha1=1e-3 / max(P, 1) * 10)
            if res:
                fails.append((f"marginal{K}", f"position {nm[j]} does not follow its site's distribution: {res}"))
                break
        # pairwise: normal scores, Pearson on rows where both taken
        if P >= 2 and not fails:
            Z = ss.norm.ppf(np.clip(U, 1e-7, 1 - 1e-7))
            Zm = np.where(taken, Z, np.nan)
            npairs = P * (P - 1) // 2
            worst = None
            if taken.all():
                R = np.corrcoef(Z, rowvar=False)
                iu = np.triu_indices(P, 1)
                r = np.abs(R[iu])
                k = int(np.nanargmax(r))
                worst = (iu[0][k], iu[1][k], R[iu][k], n1)
            else:
                best = 0.0
                for a in range(P):
                    for b in range(a + 1, P):
                        m = taken[:, a] & taken[:, b]
                        if m.sum() >= 200:
                            rr = np.corrcoef(Z[m, a], Z[m, b])[0, 1]
                            if abs(rr) * np.sqrt(m.sum()) > best:
                                best, worst = abs(rr) * np.sqrt(m.sum()), (a, b, rr, int(m.sum()))
            if worst is not None:
                a, b = worst[0], worst[1]

                def pfun(n, stage, a=a, b=b):
                    _, M_, U_ = batch(n, stage)
                    m = (M_[:, a] != 0.0) & (M_[:, b] != 0.0)
                    z = ss.norm.ppf(np.clip(U_[m], 1e-7, 1 - 1e-7))
                    rr = np.corrcoef(z[:, a], z[:, b])[0, 1]
                    return min(1.0, stats.fisher_z_p(rr, int(m.sum())) * (npairs if stage == 1 else 1)), {"pair": [nm[a], nm[b]], "r": float(rr), "n": int(m.sum()), "pairs_screened": npairs}

                res = stats.two_stage(c, pfun, n1)
                if res:
                    fails.append((f"dependence{K}", f"draws at {nm[a]} and {nm[b]} are correlated: {res}"))
    return fails, info


def _common(a, b):
    i = 0
    while i < min(len(a), len(b)) and a[i] == b[i]:
        i += 1
    return a[:i]


def one_case(ctx, case):
    P = plan(ctx)
    env.reset()
    fails, info = classify(case, ctx, P["n1"])
    kinds = info["kinds"]
    nt = any(len(set(k.split("+")) - {"site_ss"}) >= 2 for k in kinds)
    nests = sorted({f"C07.nest_{a}>{b}" for k in kinds for a, b in zip(k.split("+"), k.split("+")[1:])})
    ctx.case(case, nt, [f"C07.site_under_{k.split('+')[0]}" for k in kinds] + nests, sample={**case, "info": info}, key=case["shape"])
    for b, w in fails:
        ctx.fail(b, w, case)


def templates(depth=3):
    """Every chain of enclosing constructs (scan / vmap / cond / gen) up to `depth`, with one site at the bottom:
    enumerated, so that no nesting (scan in scan under vmap, cond in cond, ...) is left to chance."""
    import itertools

    out = []
    for d in range(1, depth + 1):
        for chain in itertools.product(["scan", "vmap", "vmapp", "cond", "gen"], repeat=d):
            node = ["site", "normal", []]
            for k in reversed(chain):
                node = {"scan": lambda x: ["scan", 3, x], "vmap": lambda x: ["vmap", 3, x], "vmapp": lambda x: ["vmap", 3, x, "p"], "cond": lambda x: ["cond", x, ["seq", [x, ["site", "uniform", []]]]],
                        "gen": lambda x: ["gen", x]}[k](node)
            out.append(node)
    return out


def run_shard(ctx):
    from hypothesis import strategies as st

    P = plan(ctx)
    T = templates()
    for i, shape in enumerate(T):  # equal-draw rule only (4 seeded runs each); shard-partitioned
        if i % ctx.nshards == ctx.shard:
            env.reset()
            case = {"shape": shape, "key": 7000 + i, "template": True}
            fails, info = classify(case, ctx, P["n1"] if i % 7 == ctx.seed % 7 else 0)
            ctx.case(case, True, ["C07.nesting_template"] + [f"C07.site_under_{k.split('+')[0]}" for k in info["kinds"]], sample={**case, "info": info}, key=("template", i))
            for b, w in fails:
                ctx.fail(b, w, case)
    drive(ctx, st.fixed_dictionaries({"shape": seedir.shapes(nseed=True), "key": st.integers(0, 2**30)}), P["n_cases"], lambda case: one_case(ctx, case), "main")


def replay(case):
    return classify(case, None, 4000)[0]
