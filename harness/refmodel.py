"""Reference interpreter for the model IR (DESIGN.md 4.1/4.2): numpy/scipy float64, never imports genjax.

Program  = {"fns": {name: Fn}, "order": [names, callees first], "main": name}
Fn       = {"np": n_positional, "kw": [names], "body": [Stmt], "ret": Expr | ["pair", Expr, Expr]}
Stmt     = ["draw",  addr, dist, [Expr]]
         | ["vdist", addr, dist, [0|None per param], n, [Expr]]           dist.vmap(in_axes)(...) @ addr
         | ["call",  addr, fname, [Expr], {kw: Expr}]
         | ["vmap",  addr, fname, [0|None per arg], n, [Expr]]            n = axis size (given to vmap iff all None)
         | ["scan",  addr, fname, L, Expr init, Expr xs]                  binds (final_carry, outs)
         | ["cond",  addr, Expr pred, fT, fF, [Expr]]
         | direct nesting of combinators (no @gen function in between), see modelir._nest_stmt:
           ["vvdist", addr, dist, [layout s|i|o|m per param], n_out, n_in, [Expr]]   dist.vmap(in).vmap(out): value (n_out, n_in)
           ["vscan",  addr, step, n, L, Expr init(n), Expr xs(L)]                    Scan(step).vmap((0, None)): choices (n, L)
           ["scanv",  addr, step, n, L, Expr init(n), Expr xs(L, n)]                 Scan(step.vmap((0, 0))):    choices (L, n)
           ["condv",  addr, Expr pred, fT, fF, n, axes, [Expr]]                      Cond(fT.vmap(axes), fF.vmap(axes))
           ["vcond",  addr, Expr predvec(n), fT, fF, n, axes, [Expr]]                Cond(fT, fF).vmap((0,) + axes)
Expr     = ["c", x] | ["p", i] | ["k", name] | ["v", addr] | ["sc", addr] | ["so", addr]
         | ["aff", a, e, b] | ["tanh", e] | ["pos", e] | ["prob", e] | ["add", e, e] | ["mul", e, e]
         | ["sum", e] | ["idx", e, j] | ["stack", [e]] | ["gt", e, c] | ["fl", e]

The expression evaluator `ev` is parametrised by the array module: deterministic glue is the *specification* of the
model and is shared on purpose (numpy here, jax.numpy in the builder); densities, samplers, handlers and combinators
are not shared.
"""
import math

import numpy as np
from scipy import special as sp
from scipy import stats as ss


def ev(e, env, xp):
    k = e[0]
    if k == "c":
        return xp.asarray(e[1], dtype=xp.float32 if xp is not np else np.float64)
    if k == "p":
        return env["p"][e[1]]
    if k == "k":
        return env["k"][e[1]]
    if k == "v":
        return env["v"][e[1]]
    if k == "sc":
        return env["v"][e[1]][0]
    if k == "so":
        return env["v"][e[1]][1]
    if k == "aff":
        return e[1] * ev(e[2], env, xp) + e[3]
    if k == "tanh":
        return xp.tanh(ev(e[1], env, xp))
    if k == "pos":
        return 0.3 + 2.0 / (1.0 + xp.exp(-ev(e[1], env, xp)))
    if k == "prob":
        return 0.05 + 0.9 / (1.0 + xp.exp(-ev(e[1], env, xp)))
    if k == "add":
        return ev(e[1], env, xp) + ev(e[2], env, xp)
    if k == "mul":
        return ev(e[1], env, xp) * ev(e[2], env, xp)
    if k == "sum":
        return xp.sum(ev(e[1], env, xp))
    if k == "idx":
        return ev(e[1], env, xp)[e[2]]
    if k == "stack":
        return xp.stack([ev(x, env, xp) for x in e[1]])
    if k == "gt":
        return ev(e[1], env, xp) > e[2]
    if k == "fl":
        v = ev(e[1], env, xp)
        return xp.asarray(v, dtype=xp.float32 if xp is not np else np.float64)
    if k == "pair":
        return (ev(e[1], env, xp), ev(e[2], env, xp))
    raise ValueError(e)


# ---------------------------------------------------------------------------
# distributions: reference density / sampler / support / cdf
# ---------------------------------------------------------------------------
MVN_COVS = [[[1.0, 0.0], [0.0, 1.0]], [[1.5, 0.6], [0.6, 0.8]], [[0.5, -0.3], [-0.3, 2.0]]]

CONTINUOUS = {"normal", "uniform", "exponential", "beta", "gamma", "mvnormal", "dirichlet"}
DISCRETE = {"flip", "bernoulli", "categorical"}


def logpdf(dist, v, ps):
    v = np.asarray(v)
    if dist == "normal":
        return float(ss.norm.logpdf(v, ps[0], ps[1]))
    if dist == "uniform":
        return float(ss.uniform.logpdf(v, ps[0], ps[1] - ps[0]))
    if dist == "exponential":
        return float(ss.expon.logpdf(v, scale=1.0 / ps[0]))
    if dist == "beta":
        return float(ss.beta.logpdf(v, ps[0], ps[1]))
    if dist == "gamma":
        return float(ss.gamma.logpdf(v, ps[0], scale=1.0 / ps[1]))
    if dist == "flip":
        p = float(ps[0])
        return math.log(p) if bool(v) else math.log1p(-p)
    if dist == "bernoulli":  # logits
        l = float(ps[0])
        return -np.logaddexp(0.0, -l) if int(v) == 1 else -np.logaddexp(0.0, l)
    if dist == "categorical":
        lg = np.asarray(ps[0], dtype=np.float64)
        return float(lg[int(v)] - sp.logsumexp(lg))
    if dist == "mvnormal":
        return float(ss.multivariate_normal.logpdf(v, mean=np.asarray(ps[0]), cov=np.asarray(ps[1])))
    if dist == "dirichlet":
        a = np.asarray(ps[0], dtype=np.float64)
        x = np.asarray(v, dtype=np.float64)
        return float(sp.gammaln(a.sum()) - sp.gammaln(a).sum() + ((a - 1) * np.log(x)).sum())
    raise ValueError(dist)


def sample(dist, ps, rng):
    if dist == "normal":
        return rng.normal(ps[0], ps[1])
    if dist == "uniform":
        return rng.uniform(ps[0], ps[1])
    if dist == "exponential":
        return rng.exponential(1.0 / ps[0])
    if dist == "beta":
        return float(np.clip(rng.beta(ps[0], ps[1]), 1e-4, 1 - 1e-4))
    if dist == "gamma":
        return max(rng.gamma(ps[0], 1.0 / ps[1]), 1e-4)
    if dist == "flip":
        return bool(rng.random() < ps[0])
    if dist == "bernoulli":
        return int(rng.random() < 1.0 / (1.0 + math.exp(-ps[0])))
    if dist == "categorical":
        lg = np.asarray(ps[0], dtype=np.float64)
        p = np.exp(lg - sp.logsumexp(lg))
        return int(rng.choice(len(p), p=p))
    if dist == "mvnormal":
        return rng.multivariate_normal(np.asarray(ps[0]), np.asarray(ps[1]))
    if dist == "dirichlet":
        x = rng.dirichlet(np.asarray(ps[0]))
        x = np.clip(x, 1e-3, None)
        return x / x.sum()
    raise ValueError(dist)


def support(dist, ps):
    if dist == "flip":
        return [False, True]
    if dist == "bernoulli":
        return [0, 1]
    if dist == "categorical":
        return list(range(len(ps[0])))
    raise ValueError(f"{dist} not enumerable")


def np_dtype(dist):
    return {"flip": np.bool_, "bernoulli": np.int32, "categorical": np.int32}.get(dist, np.float32)


def pit(dist, v, ps):
    """Rosenblatt / probability-integral transform of one continuous site: list of U(0,1) values."""
    if dist == "normal":
        return [float(ss.norm.cdf(v, ps[0], ps[1]))]
    if dist == "uniform":
        return [float(ss.uniform.cdf(v, ps[0], ps[1] - ps[0]))]
    if dist == "exponential":
        return [float(ss.expon.cdf(v, scale=1.0 / ps[0]))]
    if dist == "beta":
        return [float(ss.beta.cdf(v, ps[0], ps[1]))]
    if dist == "gamma":
        return [float(ss.gamma.cdf(v, ps[0], scale=1.0 / ps[1]))]
    if dist == "mvnormal":
        L = np.linalg.cholesky(np.asarray(ps[1], dtype=np.float64))
        z = np.linalg.solve(L, np.asarray(v, dtype=np.float64) - np.asarray(ps[0], dtype=np.float64))
        return [float(ss.norm.cdf(zi)) for zi in z]
    if dist == "dirichlet":
        a = np.asarray(ps[0], dtype=np.float64)
        x = np.asarray(v, dtype=np.float64)
        out, rem, arem = [], 1.0, a.sum()
        for i in range(len(a) - 1):
            arem -= a[i]
            out.append(float(ss.beta.cdf(min(max(x[i] / rem, 0.0), 1.0), a[i], arem)))
            rem -= x[i]
        return out
    return None


# ---------------------------------------------------------------------------
# interpreter
# ---------------------------------------------------------------------------


def cget(choices, path):
    x = choices
    for a in path:
        x = x[a]
    return x


def has_path(choices, path):
    x = choices
    for a in path:
        if not isinstance(x, dict) or a not in x:
            return False
        x = x[a]
    return True


class Store:
    """path -> {idx: value}; to_choices() stacks along the index dimensions (outermost first)."""

    def __init__(self):
        self.d = {}
        self.dist = {}

    def put(self, path, idx, v, dist=None):
        self.d.setdefault(path, {})[idx] = v
        if dist:
            self.dist[path] = dist

    def array(self, path, dtype=None):
        cells = self.d[path]
        idxs = sorted(cells)
        if idxs == [()]:
            return np.asarray(cells[()], dtype=dtype)
        dims = tuple(max(i[k] for i in idxs) + 1 for k in range(len(idxs[0])))
        first = np.asarray(cells[idxs[0]], dtype=dtype)
        out = np.zeros(dims + first.shape, dtype=first.dtype)
        for i in idxs:
            out[i] = cells[i]
        return out

    def to_choices(self, typed=True):
        out = {}
        for path in self.d:
            x = out
            for a in path[:-1]:
                x = x.setdefault(a, {})
            x[path[-1]] = self.array(path, np_dtype(self.dist[path]) if typed and path in self.dist else None)
        return out


class Ref:
    def __init__(self, prog):
        self.prog = prog
        self.fns = prog["fns"]
        self.preds = None  # set to a list to record (path, idx, bool) of every Cond predicate evaluated
        self.empties = None  # set to a list to record the addresses of choice-free sub-calls

    def run(self, fname, args, kwargs, site, path=(), idx=()):
        fn = self.fns[fname]
        env = {"p": list(args), "k": dict(kwargs), "v": {}}
        for st in fn["body"]:
            kind, addr = st[0], st[1]
            if kind == "draw":
                ps = [ev(e, env, np) for e in st[3]]
                env["v"][addr] = site(path + (addr,), idx, st[2], ps)
            elif kind == "vdist":
                _, _, dist, axes, n, pex = st
                ps = [ev(e, env, np) for e in pex]
                vals = [site(path + (addr,), idx + (i,), dist, [p[i] if ax == 0 else p for p, ax in zip(ps, axes)]) for i in range(n)]
                env["v"][addr] = np.stack([np.asarray(v) for v in vals])
            elif kind == "call":
                a = [ev(e, env, np) for e in st[3]]
                kw = {k: ev(e, env, np) for k, e in st[4].items()}
                if not self.fns[st[2]]["body"] and self.empties is not None and path + (addr,) not in self.empties:
                    self.empties.append(path + (addr,))  # a sub-call without random choices: an empty map at its address
                env["v"][addr] = self.run(st[2], a, kw, site, path + (addr,), idx)
            elif kind == "vmap":
                _, _, f, axes, n, aex = st
                a = [ev(e, env, np) for e in aex]
                outs = [self.run(f, [x[i] if ax == 0 else x for x, ax in zip(a, axes)], {}, site, path + (addr,), idx + (i,)) for i in range(n)]
                env["v"][addr] = np.stack([np.asarray(o) for o in outs])
            elif kind == "scan":
                _, _, f, L, init, xs = st
                carry, xsv, outs = ev(init, env, np), ev(xs, env, np), []
                for t in range(L):
                    carry, o = self.run(f, [carry, xsv[t]], {}, site, path + (addr,), idx + (t,))
                    outs.append(o)
                env["v"][addr] = (carry, np.stack([np.asarray(o) for o in outs]))
            elif kind == "vvdist":
                _, _, dist, lay, n_out, n_in, pex = st
                ps = [ev(e, env, np) for e in pex]
                pick = {"s": lambda p, o, i: p, "i": lambda p, o, i: p[i], "o": lambda p, o, i: p[o], "m": lambda p, o, i: p[o][i]}
                rows = [[np.asarray(site(path + (addr,), idx + (o, i), dist, [pick[l](p, o, i) for p, l in zip(ps, lay)])) for i in range(n_in)] for o in range(n_out)]
                env["v"][addr] = np.stack([np.stack(r) for r in rows])
            elif kind in ("vscan", "scanv"):
                _, _, f, n, L, init, xs = st
                iv, xv = ev(init, env, np), ev(xs, env, np)
                carry, outs = [iv[i] for i in range(n)], [[None] * L for _ in range(n)]
                order = [(i, t) for i in range(n) for t in range(L)] if kind == "vscan" else [(i, t) for t in range(L) for i in range(n)]
                for i, t in order:
                    x = xv[t] if kind == "vscan" else xv[t][i]
                    carry[i], outs[i][t] = self.run(f, [carry[i], x], {}, site, path + (addr,), idx + ((i, t) if kind == "vscan" else (t, i)))
                o = np.asarray(outs, dtype=np.float64)
                env["v"][addr] = (np.asarray(carry, dtype=np.float64), o if kind == "vscan" else o.T)
            elif kind in ("condv", "vcond"):
                _, _, pred, ft, ff, n, axes, aex = st
                a = [ev(e, env, np) for e in aex]
                pv = np.asarray(ev(pred, env, np))
                outs = []
                for i in range(n):
                    b = bool(pv) if kind == "condv" else bool(pv[i])
                    if self.preds is not None and (kind == "vcond" or i == 0):
                        self.preds.append((path + (addr,), idx + ((i,) if kind == "vcond" else ()), b))
                    outs.append(self.run(ft if b else ff, [x[i] if ax == 0 else x for x, ax in zip(a, axes)], {}, site, path + (addr,), idx + (i,)))
                env["v"][addr] = np.stack([np.asarray(o) for o in outs])
            elif kind == "cond":
                pred, ft, ff, aex = st[2:6]
                a = [ev(e, env, np) for e in aex]
                ckw = {k: ev(e, env, np) for k, e in st[6].items()} if len(st) > 6 else {}
                pv = bool(ev(pred, env, np))
                if self.preds is not None:
                    self.preds.append((path + (addr,), idx, pv))
                env["v"][addr] = self.run(ft if pv else ff, a, ckw, site, path + (addr,), idx)
            else:
                raise ValueError(st)
        return ev(fn["ret"], env, np)

    # -- modes ---------------------------------------------------------------
    def score(self, args, kwargs, choices, want_pit=False):
        """-> dict(logp, retval, site: {path: array of per-cell logp}, mag, pit: {path: {idx: [u..]}}, preds)"""
        per = Store()
        pits = {}
        acc = {"lp": 0.0, "mag": 0.0}

        def site(path, idx, dist, ps):
            v = np.asarray(cget(choices, path))[idx] if idx else np.asarray(cget(choices, path))
            lp = logpdf(dist, v, ps)
            acc["lp"] += lp
            acc["mag"] += abs(lp)
            per.put(path, idx, lp)
            if want_pit and dist in CONTINUOUS:
                pits.setdefault(path, {})[idx] = pit(dist, v, ps)
            return v

        ret = self.run(self.prog["main"], args, kwargs, site)
        return {"logp": acc["lp"], "mag": acc["mag"], "retval": ret, "site": {p: per.array(p, np.float64) for p in per.d},
                "pit": pits}

    def sample(self, args, kwargs, rng, given=None):
        """Ancestral sample; sites present in `given` (nested dict) are read, not sampled."""
        st = Store()

        def site(path, idx, dist, ps):
            if given is not None and has_path(given, path):
                g = np.asarray(cget(given, path))
                v = g[idx] if idx else g
            else:
                v = sample(dist, ps, rng)
            st.put(path, idx, v, dist)
            return np.asarray(v)

        self.empties = []
        try:
            ret = self.run(self.prog["main"], args, kwargs, site)
            ch = st.to_choices()
            for pth in self.empties:
                x = ch
                for a in pth:
                    x = x.setdefault(a, {})
        finally:
            self.empties = None
        return ch, ret

    def enumerate(self, args, kwargs, limit=4096, given=None):
        """All complete choice maps of an all-discrete program: list of (choices, logp, retval, key).
        Sites in `given` are fixed (their log-prob is still included).  None if more than `limit` outcomes."""
        results, stack = [], [[]]
        while stack:
            prefix = stack.pop()
            st, taken, sizes = Store(), [], []
            acc = {"lp": 0.0}

            def site(path, idx, dist, ps):
                if given is not None and has_path(given, path):
                    g = np.asarray(cget(given, path))
                    v = g[idx] if idx else g
                    v = v.item()
                else:
                    supp = support(dist, ps)
                    k = len(taken)
                    j = prefix[k] if k < len(prefix) else 0
                    taken.append(j)
                    sizes.append(len(supp))
                    v = supp[j]
                acc["lp"] += logpdf(dist, v, ps)
                st.put(path, idx, v, dist)
                return np.asarray(v)

            self.empties = []
            try:
                ret = self.run(self.prog["main"], args, kwargs, site)
            finally:
                emp, self.empties = self.empties, None
            ch = st.to_choices()
            for pth in emp:
                x = ch
                for a in pth:
                    x = x.setdefault(a, {})
            results.append((ch, acc["lp"], ret, outcome_key(ch)))
            if len(results) + len(stack) > limit:
                return None
            for k in range(len(prefix), len(taken)):
                for j in range(1, sizes[k]):
                    stack.append(taken[:k] + [j])
        return results

    def leaf_info(self, args, kwargs, rng=None):
        """{path: (dist, batch_dims, event_shape)} for the *taken* control flow under a reference sample."""
        rng = rng or np.random.default_rng(0)
        info = {}

        def site(path, idx, dist, ps):
            v = sample(dist, ps, rng)
            d = info.setdefault(path, [dist, idx, np.shape(v)])
            d[1] = tuple(max(a, b) for a, b in zip(d[1], idx)) if d[1] else idx
            return np.asarray(v)

        self.run(self.prog["main"], args, kwargs, site)
        return {p: (d[0], tuple(i + 1 for i in d[1]), tuple(d[2])) for p, d in info.items()}


def outcome_key(choices, prefix=()):
    """Hashable key of a (discrete) choice map."""
    items = []
    for a in sorted(choices):
        v = choices[a]
        if isinstance(v, dict):
            items.extend(outcome_key(v, prefix + (a,)))
        else:
            items.append((prefix + (a,), tuple(np.asarray(v).astype(np.int64).ravel().tolist())))
    return tuple(items)


def flat_leaves(choices, prefix=()):
    out = {}
    for a in choices:
        v = choices[a]
        if isinstance(v, dict):
            out.update(flat_leaves(v, prefix + (a,)))
        else:
            out[prefix + (a,)] = v
    return out


def nest(flat):
    out = {}
    for path, v in flat.items():
        x = out
        for a in path[:-1]:
            x = x.setdefault(a, {})
        x[path[-1]] = v
    return out
