"""Runner: CLI, tiers, seeding, sharding, evidence, known findings, replay, exit codes.

    ./check C07 [--tier quick|thorough] [--replay FILE] [--shards N]

exit 0  property held on everything explored (KNOWN-FINDING lines may be printed)
exit 1  at least one violation not listed in known_findings.jsonl; one line
        "VIOLATION property=<id> replay=<path>" per root-cause bucket
exit 2  harness error / inconclusive (never a violation)

A property module (harness/props/cNN.py) provides

    ID, RULE                       non-triviality rule text
    plan(tier) -> {"shards": n, "timeout_s": t, ...}
    run_shard(ctx)                 generate cases, call ctx.case(...) / ctx.fail(...)
    replay(case) -> list[(bucket, what)]    re-run one saved case, no Hypothesis

Workers are separate processes (subprocess, one XLA thread each); results come
back as JSON files and are merged by the parent.
"""
import argparse
import hashlib
import importlib
import json
import os
import subprocess
import sys
import time
import traceback

VERIF = os.path.dirname(os.path.dirname(os.path.abspath(__file__)))
WORK = os.path.join(VERIF, ".work")


def canon(obj):
    return json.dumps(obj, sort_keys=True, separators=(",", ":"), default=_default)


def _default(o):
    try:
        import numpy as np

        if isinstance(o, (np.generic,)):
            return o.item()
        if hasattr(o, "tolist"):
            return np.asarray(o).tolist()
    except Exception:
        pass
    if isinstance(o, (set, frozenset)):
        return sorted(o)
    if isinstance(o, tuple):
        return list(o)
    return repr(o)


def h64(obj):
    return hashlib.sha1(canon(obj).encode()).hexdigest()[:16]


def mix_seed(*parts):
    return int(hashlib.sha1(canon(list(parts)).encode()).hexdigest()[:8], 16) % (2**31 - 1) + 1


class ImplError(Exception):
    """The code under test raised where the property says it must not."""

    def __init__(self, exc, where=""):
        self.exc = exc
        self.where = where
        super().__init__(f"{type(exc).__name__}: {str(exc)[:300]}")

    def sig(self):
        """(exception type, innermost genjax frame function) - stable bucket part."""
        tb = self.exc.__traceback__
        fn = "?"
        while tb is not None:
            f = tb.tb_frame.f_code
            if "/genjax/" in f.co_filename:
                fn = os.path.basename(f.co_filename)[:-3] + "." + f.co_name
            tb = tb.tb_next
        return f"{type(self.exc).__name__}@{fn}"


def impl(fn, *a, **k):
    """Call into the code under test; any exception becomes ImplError."""
    try:
        return fn(*a, **k)
    except ImplError:
        raise
    except Exception as e:  # noqa: BLE001
        raise ImplError(e) from e


class Ctx:
    """Per-shard accumulator."""

    MAX_SAMPLES = 4
    MAX_FAIL_PER_BUCKET = 3

    def __init__(self, prop, tier, seed, shard, nshards):
        self.prop, self.tier, self.seed, self.shard, self.nshards = prop, tier, seed, shard, nshards
        self.evaluations = 0
        self.hashes = set()
        self.distinct_by_construction = 0
        self.counters = {}
        self.samples = []
        self.failures = {}  # bucket -> list of {what, case}
        self.fail_counts = {}
        self.excluded_known = 0
        self.stat_tests = 0
        self.stat_stage2 = 0
        self.notes = []
        self.t0 = time.time()

    # -- seeds -------------------------------------------------------------
    def hseed(self, *label):
        return mix_seed(self.seed, self.prop, self.shard, *label)

    def count(self, name, n=1):
        self.counters[name] = self.counters.get(name, 0) + n

    def case(self, case, nontrivial, classes=(), sample=None, key=None):
        """Record one evaluated case."""
        self.evaluations += 1
        for c in classes:
            self.count(c)
        if nontrivial:
            self.hashes.add(h64(case if key is None else key))
            self.count("nontrivial_evals")
        if len(self.samples) < self.MAX_SAMPLES and (nontrivial or self.evaluations > 20):
            self.samples.append(case if sample is None else sample)

    def fail(self, bucket, what, case):
        self.fail_counts[bucket] = self.fail_counts.get(bucket, 0) + 1
        lst = self.failures.setdefault(bucket, [])
        rec = {"what": str(what)[:1500], "case": case}
        if len(lst) < self.MAX_FAIL_PER_BUCKET:
            lst.append(rec)
        else:  # keep the smallest
            sz = len(canon(case))
            big = max(range(len(lst)), key=lambda i: len(canon(lst[i]["case"])))
            if sz < len(canon(lst[big]["case"])):
                lst[big] = rec

    def result(self):
        return {
            "evaluations": self.evaluations,
            "hashes": sorted(self.hashes),
            "distinct_by_construction": self.distinct_by_construction,
            "counters": self.counters,
            "samples": self.samples,
            "failures": self.failures,
            "fail_counts": self.fail_counts,
            "excluded_known": self.excluded_known,
            "stat_tests": self.stat_tests,
            "stat_stage2": self.stat_stage2,
            "notes": self.notes[:20],
            "wall_s": time.time() - self.t0,
        }


# --------------------------------------------------------------------------
# Hypothesis driving helpers (used inside workers)
# --------------------------------------------------------------------------


def hyp_settings(n, shrink=False):
    from hypothesis import HealthCheck, Phase, settings

    phases = [Phase.generate, Phase.shrink] if shrink else [Phase.generate]
    return settings(
        max_examples=n,
        database=None,
        deadline=None,
        derandomize=False,
        report_multiple_bugs=False,
        suppress_health_check=list(HealthCheck),
        phases=phases,
    )


def _in_code_under_test(exc):
    """Was the exception raised inside genjax (the code under test), as opposed to the harness / numpy / Hypothesis?"""
    tb = exc.__traceback__
    hit = False
    while tb is not None:
        if "/genjax/" in tb.tb_frame.f_code.co_filename:
            hit = True
        tb = tb.tb_next
    return hit


def drive(ctx, strategy, n, fn, label="main"):
    """Run fn(case) on n Hypothesis-generated cases (failures are *recorded* by fn via ctx).

    An exception that escapes fn is a defect of the harness itself (generator / oracle bug): the case is skipped and
    counted; the run is inconclusive only if that happens often."""
    from hypothesis import given, seed

    @seed(ctx.hseed(label))
    @hyp_settings(n)
    @given(strategy)
    def _t(case):
        try:
            fn(case)
        except (KeyboardInterrupt, SystemExit):
            raise
        except BaseException as e:  # noqa: BLE001
            # Calls whose failure would be a finding are wrapped with impl() by the property modules; what escapes is an
            # input the generator should not have produced or an oracle bug.  The case is skipped and counted - also when
            # the exception passed through genjax frames (counted separately, so that it can be looked at).
            ctx.count("harness_case_errors")
            if _in_code_under_test(e):
                ctx.count("harness_case_errors_through_genjax_frames")
            ctx.notes.append(f"[{label}] harness error, case skipped: {type(e).__name__}: {str(e)[:300]}")

    try:
        _t()
    except (KeyboardInterrupt, SystemExit):
        raise
    except BaseException as e:  # noqa: BLE001  (an error while *generating* a case)
        ctx.count("harness_case_errors")
        ctx.count("harness_generation_aborted")
        ctx.notes.append(f"[{label}] generation aborted: {type(e).__name__}: {str(e)[:300]}")


def shrink_bucket(ctx, strategy, n, classify, bucket, label="main", budget=150):
    """Re-run the same generation with a test that fails only on `bucket`; let Hypothesis shrink.

    classify(case) -> list[(bucket, what)].  Returns the smallest failing case seen, or None.
    """
    from hypothesis import given, seed

    best = {}
    calls = [0]

    class _Hit(Exception):
        pass

    @seed(ctx.hseed(label))
    @hyp_settings(n, shrink=True)
    @given(strategy)
    def _t(case):
        if best and calls[0] >= budget:
            return
        fails = classify(case)
        if best:
            calls[0] += 1
        for b, what in fails:
            if b == bucket:
                best["case"], best["what"] = case, what
                raise _Hit()

    try:
        _t()
    except BaseException:  # noqa: BLE001
        pass
    return best or None


# --------------------------------------------------------------------------
# Known findings
# --------------------------------------------------------------------------


def load_known(prop):
    path = os.path.join(VERIF, "known_findings.jsonl")
    out = []
    if os.path.exists(path):
        for line in open(path):
            line = line.strip()
            if not line or line.startswith("#") or line.startswith("fixed:"):
                continue
            rec = json.loads(line)
            if rec.get("property") == prop:
                out.append(rec)
    return out


def known_match(known, bucket):
    for rec in known:
        if rec["bucket"] == bucket:
            return rec
    return None


# --------------------------------------------------------------------------
# Parent
# --------------------------------------------------------------------------


def worker_env():
    env = dict(os.environ)
    env["PYTHONHASHSEED"] = "0"
    env["PYTHONDONTWRITEBYTECODE"] = "1"
    env["JAX_PLATFORMS"] = "cpu"
    env["XLA_FLAGS"] = (env.get("XLA_FLAGS", "") + " --xla_cpu_multi_thread_eigen=false intra_op_parallelism_threads=1").strip()
    env["OMP_NUM_THREADS"] = "1"
    env["OPENBLAS_NUM_THREADS"] = "1"
    env["MKL_NUM_THREADS"] = "1"
    env["TF_CPP_MIN_LOG_LEVEL"] = "3"
    env["PYTHONPATH"] = VERIF + os.pathsep + env.get("PYTHONPATH", "")
    return env


def main(argv=None):
    ap = argparse.ArgumentParser()
    ap.add_argument("prop")
    ap.add_argument("--tier", default=os.environ.get("VERIF_TIER", "quick"))
    ap.add_argument("--replay")
    ap.add_argument("--shards", type=int)
    ap.add_argument("--worker", type=int)
    ap.add_argument("--nshards", type=int)
    ap.add_argument("--out")
    args = ap.parse_args(argv)
    prop = args.prop.upper()
    tier = args.tier if args.tier in ("quick", "thorough") else "quick"
    try:
        seed = int(os.environ.get("VERIF_SEED", "1"))
    except ValueError:
        seed = 1

    if args.worker is not None:
        return _worker(prop, tier, seed, args.worker, args.nshards, args.out)
    if args.replay:
        return _replay(prop, args.replay)
    return _parent(prop, tier, seed, args.shards)


def _load(prop):
    return importlib.import_module(f"harness.props.{prop.lower()}")


def _worker(prop, tier, seed, shard, nshards, out):
    try:
        # one core per worker: XLA sizes its compile/runtime thread pools from the affinity mask, and 16 workers
        # with 16-thread pools each spend most of their time in the kernel
        try:
            cpus = sorted(os.sched_getaffinity(0))
            os.sched_setaffinity(0, {cpus[shard % len(cpus)]})
        except Exception:  # noqa: BLE001
            pass
        from harness import env  # noqa: F401

        mod = _load(prop)
        ctx = Ctx(prop, tier, seed, shard, nshards)
        _run_corpus(ctx, mod)
        mod.run_shard(ctx)
        res = ctx.result()
        res["ok"] = True
    except BaseException as e:  # noqa: BLE001
        res = {"ok": False, "error": "".join(traceback.format_exception(type(e), e, e.__traceback__))[-6000:]}
    with open(out, "w") as f:
        f.write(canon(res))
    return 0 if res.get("ok") else 2


def _run_corpus(ctx, mod):
    """Seconds-long replay tier: hand-curated / previously-failing cases, run before any generated case."""
    cdir = os.path.join(VERIF, "corpus", ctx.prop)
    if not os.path.isdir(cdir):
        return
    from harness import env

    files = sorted(f for f in os.listdir(cdir) if f.endswith(".json"))
    for i, fn in enumerate(files):
        if i % ctx.nshards != ctx.shard:
            continue
        rec = json.load(open(os.path.join(cdir, fn)))
        case = rec["case"] if isinstance(rec, dict) and "case" in rec else rec
        env.reset()
        ctx.count("corpus_cases")
        if hasattr(mod, "one_case"):  # full treatment: class counters, non-triviality, failures
            mod.one_case(ctx, case)
            continue
        fails = mod.replay(case)
        ctx.evaluations += 1
        ctx.hashes.add(h64(case))
        for b, w in fails:
            ctx.fail(b, f"[corpus {fn}] {w}", case)


def _replay(prop, path):
    try:
        from harness import env  # noqa: F401

        mod = _load(prop)
        rec = json.load(open(path))
        case = rec["case"] if isinstance(rec, dict) and "case" in rec else rec
        env.reset()
        fails = mod.replay(case)
    except BaseException as e:  # noqa: BLE001
        traceback.print_exc()
        print(f"HARNESS-ERROR property={prop} replay failed: {e}")
        return 2
    known = load_known(prop)
    bad = 0
    for b, what in fails:
        k = known_match(known, b)
        if k:
            print(f"KNOWN-FINDING: property={prop} {k['what']} [bucket={b}]")
        else:
            bad += 1
            print(f"VIOLATION property={prop} replay={path}")
            print(f"  bucket={b}\n  {what}")
    if not fails:
        print(f"replay {path}: property {prop} holds on this case")
    return 1 if bad else 0


def _parent(prop, tier, seed, shards_override=None):
    t0 = time.time()
    try:
        sys.path.insert(0, VERIF)
        plan = _default_plan(prop, tier)
    except Exception:
        traceback.print_exc()
        print(f"HARNESS-ERROR property={prop} cannot plan")
        return 2
    nshards = shards_override or plan.get("shards", min(16, os.cpu_count() or 1))
    timeout = plan.get("timeout_s", 1500 if tier == "quick" else 6 * 3600)
    work = os.path.join(WORK, f"{prop}-{tier}-{seed}-{os.getpid()}")
    os.makedirs(work, exist_ok=True)
    procs = []
    env = worker_env()
    for s in range(nshards):
        out = os.path.join(work, f"shard{s}.json")
        log = open(os.path.join(work, f"shard{s}.log"), "w")
        p = subprocess.Popen(
            [sys.executable, "-m", "harness.engine", prop, "--tier", tier, "--worker", str(s), "--nshards", str(nshards), "--out", out],
            cwd=VERIF, env={**env, "VERIF_SEED": str(seed)}, stdout=log, stderr=subprocess.STDOUT)
        procs.append((s, p, out, log))
    deadline = time.time() + timeout
    results, errors = [], []
    for s, p, out, log in procs:
        try:
            p.wait(timeout=max(1, deadline - time.time()))
        except subprocess.TimeoutExpired:
            p.kill()
            errors.append(f"shard {s}: time budget ({timeout}s) exhausted - inconclusive")
            continue
        finally:
            log.close()
        try:
            r = json.load(open(out))
        except Exception as e:  # noqa: BLE001
            tail = open(os.path.join(work, f"shard{s}.log")).read()[-3000:]
            errors.append(f"shard {s}: no result ({e}); log tail:\n{tail}")
            continue
        if not r.get("ok"):
            errors.append(f"shard {s}: worker error:\n{r.get('error')}")
            continue
        results.append(r)
    if errors:
        for e in errors:
            print("HARNESS-ERROR", e)
        print(f"HARNESS-ERROR property={prop}: {len(errors)} shard(s) failed; inconclusive (logs: {work})")
        return 2

    rc = _merge_and_report(prop, tier, seed, results, time.time() - t0, plan)
    if rc == 0:
        import shutil

        shutil.rmtree(work, ignore_errors=True)
    return rc


def _default_plan(prop, tier):
    from harness import plans

    return plans.PLANS[prop][tier]


def _merge_and_report(prop, tier, seed, results, wall, plan):
    from harness import plans

    evaluations = sum(r["evaluations"] for r in results)
    hashes = set()
    for r in results:
        hashes.update(r["hashes"])
    distinct = len(hashes) + sum(r["distinct_by_construction"] for r in results)
    counters = {}
    for r in results:
        for k, v in r["counters"].items():
            counters[k] = counters.get(k, 0) + v
    samples = []
    for r in results:
        for smp in r["samples"]:
            if len(samples) < 6:
                samples.append(smp)
    failures, fail_counts = {}, {}
    for r in results:
        for b, lst in r["failures"].items():
            failures.setdefault(b, []).extend(lst)
        for b, n in r["fail_counts"].items():
            fail_counts[b] = fail_counts.get(b, 0) + n

    known = load_known(prop)
    # buckets "name|f1+f2": the same check failing on programs with feature sets; keep only minimal feature sets
    # per name (a failure on {cond} explains the ones on {cond,scan}); known findings are matched first.
    def _split(b):
        name, _, fs = b.partition("|")
        return name, frozenset(x for x in fs.split("+") if x)
    unknown = [b for b in failures if "|" in b and not known_match(known, b)]
    suppressed = {}
    for b in unknown:
        n, fs = _split(b)
        for b2 in unknown:
            n2, fs2 = _split(b2)
            if b2 != b and n2 == n and fs2 < fs:
                suppressed[b] = b2
                break
    for b in suppressed:
        failures.pop(b)
    violations, known_hits = [], []
    OUT = os.environ.get("VERIF_OUTDIR", VERIF)  # sensitivity runs (DESIGN.md 9) keep their output out of /verif/evidence
    os.makedirs(os.path.join(OUT, "replays", prop), exist_ok=True)
    for b in sorted(failures):
        lst = sorted(failures[b], key=lambda rec: len(canon(rec["case"])))
        k = known_match(known, b)
        if k:
            known_hits.append((b, k, fail_counts[b]))
            continue
        rec = lst[0]
        safe = "".join(c if c.isalnum() or c in "-_." else "_" for c in b)[:80]
        path = os.path.join("replays", prop, f"{safe}-{h64(rec['case'])[:8]}.json")
        with open(os.path.join(OUT, path), "w") as f:
            json.dump({"property": prop, "bucket": b, "what": rec["what"], "seed": seed, "tier": tier, "case": json.loads(canon(rec["case"]))}, f, indent=1, sort_keys=True)
        violations.append((b, path, rec["what"], fail_counts[b]))

    required = plan.get("required_classes", [])
    missing = [c for c in required if counters.get(c, 0) == 0]

    meta = plans.META[prop]
    ev = {
        "property_id": prop,
        "tier": tier,
        "seed": seed,
        "level": "exploration",
        "coverage": {
            "evaluations": evaluations,
            "distinct_nontrivial": distinct,
            "rule": meta["rule"],
            "samples": samples,
            "class_counters": dict(sorted(counters.items())),
            "statistical_tests_run": sum(r["stat_tests"] for r in results),
            "statistical_stage2_invocations": sum(r["stat_stage2"] for r in results),
            "excluded_by_known_finding": sum(r["excluded_known"] for r in results),
            "known_findings_hit": [{"bucket": b, "count": n} for b, _, n in known_hits],
            "violation_buckets": [{"bucket": b, "count": n, "replay": p} for b, p, _, n in violations],
            "nonminimal_buckets_folded": [{"bucket": b, "into": b2} for b, b2 in sorted(suppressed.items())],
            "shards": len(results),
            "shard_wall_s": [round(r["wall_s"], 1) for r in results],
            "exhaustive": bool(meta.get("exhaustive", False)) and plan.get("exhaustive", False),
            "expected_classes_not_reached": missing,
            "notes": [n for r in results for n in r.get("notes", [])][:20],
        },
        "assumptions": meta.get("assumptions", []) + [
            "genjax source in /repo executed on JAX 0.11 through harness/jaxcompat.py (DESIGN.md section 2)"],
        "wall_s": round(wall, 2),
        "violations": len(violations),
    }
    os.makedirs(os.path.join(OUT, "evidence"), exist_ok=True)
    with open(os.path.join(OUT, "evidence", f"{prop}.json"), "w") as f:
        json.dump(json.loads(canon(ev)), f, indent=1, sort_keys=True)

    for b, k, n in known_hits:
        print(f"KNOWN-FINDING: property={prop} {k['what']} [bucket={b} hits={n}]")
    for b, path, what, n in violations:
        print(f"VIOLATION property={prop} replay={path}")
        print(f"  bucket={b} hits={n}\n  {what}")
    print(f"{prop} {tier} seed={seed}: evaluations={evaluations} distinct_nontrivial={distinct} "
          f"violations={len(violations)} known={len(known_hits)} wall={wall:.1f}s")
    if violations:
        return 1
    if missing:
        # a coverage shortfall of this run (recorded in the evidence file), not a verdict about the code under test
        print(f"COVERAGE-NOTE property={prop}: this run did not reach the case classes {missing}")
    if distinct < 2:
        print(f"HARNESS-ERROR property={prop}: fewer than 2 non-trivial cases")
        return 2
    herr = counters.get("harness_case_errors", 0)
    if herr:
        print(f"COVERAGE-NOTE property={prop}: {herr} generated case(s) skipped because of errors in the harness itself (see notes in the evidence file)")
        if herr > 0.2 * max(evaluations, 1) or counters.get("harness_generation_aborted", 0) >= len(results):
            print(f"HARNESS-ERROR property={prop}: too many harness errors; inconclusive")
            return 2
    return 0


if __name__ == "__main__":
    sys.exit(main())
