"""Reference selection semantics (DESIGN.md 4.3), written from the statement of C16.

Selection AST (JSON-able):
    ["none"] | ["all"] | ["str", a] | ["tup", [a1..ak]] (k>=1) | ["dict", {a: Sel}]
    | ["or", s, t] | ["and", s, t] | ["not", s]

selected(sel, path) decides a *complete leaf path* (tuple of strings).
Never imports genjax except in to_genjax().
"""


def selected(s, path):
    k = s[0]
    if k == "none":
        return False
    if k == "all":
        return True
    if k == "str":
        return len(path) >= 1 and path[0] == s[1]
    if k == "tup":
        t = tuple(s[1])
        return len(path) >= len(t) and tuple(path[: len(t)]) == t
    if k == "dict":
        return len(path) >= 1 and path[0] in s[1] and selected(s[1][path[0]], path[1:])
    if k == "or":
        return selected(s[1], path) or selected(s[2], path)
    if k == "and":
        return selected(s[1], path) and selected(s[2], path)
    if k == "not":
        return not selected(s[1], path)
    raise ValueError(s)


def to_genjax(s):
    from genjax.core import sel

    k = s[0]
    if k == "none":
        return sel()
    if k == "all":
        return sel(())
    if k == "str":
        return sel(s[1])
    if k == "tup":
        return sel(tuple(s[1]))
    if k == "dict":
        return sel({a: to_genjax(v) for a, v in s[1].items()})
    if k == "or":
        return to_genjax(s[1]) | to_genjax(s[2])
    if k == "and":
        return to_genjax(s[1]) ^ to_genjax(s[2])
    if k == "not":
        return ~to_genjax(s[1])
    raise ValueError(s)


def show(s):
    k = s[0]
    if k == "none":
        return "sel()"
    if k == "all":
        return "sel(())"
    if k == "str":
        return f"sel({s[1]!r})"
    if k == "tup":
        return f"sel({tuple(s[1])!r})"
    if k == "dict":
        return "sel({" + ", ".join(f"{a!r}: {show(v)}" for a, v in sorted(s[1].items())) + "})"
    if k == "or":
        return f"({show(s[1])} | {show(s[2])})"
    if k == "and":
        return f"({show(s[1])} ^ {show(s[2])})"
    if k == "not":
        return f"~{show(s[1])}"
    raise ValueError(s)


def n_connectives(s):
    k = s[0]
    if k in ("or", "and"):
        return 1 + n_connectives(s[1]) + n_connectives(s[2])
    if k == "not":
        return 1 + n_connectives(s[1])
    if k == "dict":
        return sum(n_connectives(v) for v in s[1].values())
    return 0


def leaf_paths(shape, prefix=()):
    """All leaf paths of a nested-dict shape (leaves are anything that is not a dict)."""
    out = []
    for a in sorted(shape):
        v = shape[a]
        if isinstance(v, dict):
            out.extend(leaf_paths(v, prefix + (a,)))
        else:
            out.append(prefix + (a,))
    return out


def impl_selected(gsel, path):
    """What the implementation's regenerate decides: thread match down the path, then `() in rest`."""
    s = gsel
    for a in path:
        _, s = s.match(a)
    return () in s
