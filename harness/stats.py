"""Calibrated statistical decisions (DESIGN.md 5.2).  numpy/scipy only, float64.

Two-stage protocol: a test is a function draw(n, stage) -> p-value.  Stage 1 at
alpha1 on n1 draws; only if it rejects, stage 2 on n2 = 8*n1 fresh draws at alpha2.
A violation needs both, so the per-test false-alarm probability is <= alpha1*alpha2.
"""
import math

import numpy as np
from scipy import stats as ss

ALPHA1 = 1e-3
ALPHA2 = 1e-9


def two_stage(ctx, pfun, n1, mult=8, alpha1=ALPHA1, alpha2=ALPHA2):
    """pfun(n, stage) -> (p_value, info).  Returns None if consistent, else info of stage 2."""
    ctx.stat_tests += 1
    p1, info1 = pfun(n1, 1)
    if not (p1 < alpha1):
        return None
    ctx.stat_stage2 += 1
    p2, info2 = pfun(n1 * mult, 2)
    if p2 < alpha2:
        return {"p1": float(p1), "p2": float(p2), "stage1": info1, "stage2": info2}
    return None


def ks_uniform_p(u):
    u = np.asarray(u, dtype=np.float64).ravel()
    u = u[np.isfinite(u)]
    if u.size == 0:
        return 0.0
    return float(ss.kstest(u, "uniform").pvalue)


def ks_cdf_p(x, cdf):
    x = np.asarray(x, dtype=np.float64).ravel()
    return float(ss.kstest(x, cdf).pvalue)


def chi2_p(counts, probs, min_expected=10.0):
    """Pearson chi-square of observed counts vs reference probabilities, pooling small cells.

    Returns (p, info).  An outcome of reference probability 0 that was observed gives p = 0.
    """
    counts = np.asarray(counts, dtype=np.float64)
    probs = np.asarray(probs, dtype=np.float64)
    n = counts.sum()
    if np.any((probs <= 0) & (counts > 0)):
        return 0.0, {"zero_prob_outcome_observed": True}
    exp = probs * n
    order = np.argsort(exp)
    pooled_o, pooled_e = [], []
    acc_o = acc_e = 0.0
    for i in order:
        acc_o += counts[i]
        acc_e += exp[i]
        if acc_e >= min_expected:
            pooled_o.append(acc_o)
            pooled_e.append(acc_e)
            acc_o = acc_e = 0.0
    if acc_e > 0:
        if pooled_e:
            pooled_o[-1] += acc_o
            pooled_e[-1] += acc_e
        else:
            pooled_o.append(acc_o)
            pooled_e.append(acc_e)
    o, e = np.array(pooled_o), np.array(pooled_e)
    if len(o) < 2:
        return 1.0, {"cells": int(len(o))}
    stat = float(((o - e) ** 2 / e).sum())
    p = float(ss.chi2.sf(stat, len(o) - 1))
    return p, {"chi2": stat, "cells": int(len(o)), "n": float(n)}


def spearman_p(x, y):
    x = np.asarray(x, dtype=np.float64).ravel()
    y = np.asarray(y, dtype=np.float64).ravel()
    if np.std(x) == 0 or np.std(y) == 0:
        return 1.0, 0.0
    r, p = ss.spearmanr(x, y)
    return float(p), float(r)


def block_mean_t_p(x, mu0, blocks=40):
    """Two-sided t-test on block means: conservative for heavy-ish tails."""
    x = np.asarray(x, dtype=np.float64).ravel()
    n = (x.size // blocks) * blocks
    if n == 0:
        return 1.0, {}
    b = x[:n].reshape(blocks, -1).mean(axis=1)
    m, s = b.mean(), b.std(ddof=1)
    if abs(m - mu0) <= 2e-5 * (1.0 + abs(mu0)):
        # agreement to float32 accuracy: a (near) zero-variance estimator must not be failed on round-off
        return 1.0, {"mean": float(m), "ref": float(mu0)}
    if s == 0:
        return (1.0 if abs(m - mu0) <= 1e-6 * (1 + abs(mu0)) else 0.0), {"mean": float(m), "ref": float(mu0)}
    t = (m - mu0) / (s / math.sqrt(blocks))
    p = float(2 * ss.t.sf(abs(t), blocks - 1))
    return p, {"mean": float(m), "ref": float(mu0), "t": float(t), "se": float(s / math.sqrt(blocks))}


def bernstein_mean_p(x, mu0, lo=0.0, hi=1.0):
    """Empirical-Bernstein (Maurer-Pontil) two-sided 'p-value' for the mean of a [lo,hi] variable:
    the smallest delta at which |mean - mu0| exceeds the bound.  Non-asymptotic."""
    x = (np.asarray(x, dtype=np.float64).ravel() - lo) / (hi - lo)
    mu = (mu0 - lo) / (hi - lo)
    n = x.size
    m, v = x.mean(), x.var(ddof=1)
    d = abs(m - mu)
    if d == 0:
        return 1.0, {"mean": float(m), "ref": float(mu)}
    # bound(delta) = sqrt(2 v L / n) + 7 L / (3 (n-1)),  L = ln(4/delta)  (two-sided: 2 * (2/delta'))
    a = 7.0 / (3.0 * (n - 1))
    b = math.sqrt(2.0 * v / n)
    # solve a L + b sqrt(L) = d  for sqrt(L)
    sq = (-b + math.sqrt(b * b + 4 * a * d)) / (2 * a)
    L = sq * sq
    p = min(1.0, 4.0 * math.exp(-L))
    return p, {"mean": float(m * (hi - lo) + lo), "ref": float(mu0), "n": int(n)}


def fisher_z_p(r, n):
    if abs(r) >= 1:
        return 0.0
    z = 0.5 * math.log((1 + r) / (1 - r)) * math.sqrt(max(n - 3, 1))
    return float(2 * ss.norm.sf(abs(z)))
