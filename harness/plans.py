"""Static per-property metadata and budgets (no jax import here).

PLANS[prop][tier]: shards, timeout_s (wall guard => 'inconclusive', exit 2), required_classes
(class counters that must be non-zero, else exit 2 'generator does not reach the class'),
plus free-form budget knobs read by the property module through plan(ctx).
META[prop]: the non-triviality rule that `distinct_nontrivial` counts, assumptions.
"""

PLANS = {}
META = {}


def reg(prop, rule, quick, thorough, assumptions=(), exhaustive=False):
    META[prop] = {"rule": rule, "assumptions": list(assumptions), "exhaustive": exhaustive}
    PLANS[prop] = {"quick": quick, "thorough": thorough}


def plan(ctx):
    return PLANS[ctx.prop][ctx.tier]


reg(
    "C16",
    "A: every selection expression over the atom set closed under |,^,~ to the stated connective depth x every "
    "address path of length 1..3 over {a,b,c} is ENUMERATED (not sampled); a pair is non-trivial when the expression "
    "has >=1 connective and the path has length >=2; pairs are distinct by construction (enumeration without "
    "repetition), counted. B: filter/merge partition on generated nested choice-map shapes (scalar, vector, "
    "Vmap- and Cond-produced leaves); C: agreement of filter with what seed(regenerate) resamples and what "
    "mala/hmc move, on generated programs; B/C cases are distinct by hash of (shape, expression).",
    quick={"shards": 16, "timeout_s": 1200, "depth2": "mixed", "n_filter": 60, "n_agree": 5, "exhaustive": True,
           "required_classes": ["A.pairs", "B.filter_cases", "C.regenerate_cases", "C.mala_cases", "C.hmc_cases",
                                "B.shape_with_vector_leaf", "B.shape_with_cond_leaf"]},
    thorough={"shards": 16, "timeout_s": 3 * 3600, "depth2": "full", "n_filter": 600, "n_agree": 40, "exhaustive": True,
              "required_classes": ["A.pairs", "B.filter_cases", "C.regenerate_cases", "C.mala_cases", "C.hmc_cases"]},
    assumptions=["the alphabet {a,b,c} and nesting bound 3 are representative: the selection classes never inspect the "
                 "characters of an address, only equality"],
    exhaustive=True,
)
NOT_CLAIMED = {}
