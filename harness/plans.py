"""Static per-property metadata and budgets (no jax import here).

PLANS[prop][tier]: shards, timeout_s (wall guard => 'inconclusive', exit 2), required_classes
(class counters that must be non-zero, else exit 2 'generator does not reach the class'),
plus free-form budget knobs read by the property module through plan(ctx).
META[prop]: the non-triviality rule that `distinct_nontrivial` counts, assumptions.
"""

PLANS = {}
META = {}


def reg(prop, rule, quick, thorough, assumptions=(), exhaustive=False):
    META[prop] = {"rule": rule, "assumptions": list(assumptions), "exhaustive": exhaustive}
    PLANS[prop] = {"quick": quick, "thorough": thorough}


def plan(ctx):
    return PLANS[ctx.prop][ctx.tier]


reg(
    "C16",
    "A: every selection expression over the atom set closed under |,^,~ to the stated connective depth x every "
    "address path of length 1..3 over {a,b,c} is ENUMERATED (not sampled); a pair is non-trivial when the expression "
    "has >=1 connective and the path has length >=2; pairs are distinct by construction (enumeration without "
    "repetition), counted. B: filter/merge partition on generated nested choice-map shapes (scalar, vector, "
    "Vmap- and Cond-produced leaves); C: agreement of filter with what seed(regenerate) resamples and what "
    "mala/hmc move, on generated programs; B/C cases are distinct by hash of (shape, expression).",
    quick={"shards": 16, "timeout_s": 3000, "depth2": "mixed", "n_filter": 60, "n_agree": 5, "exhaustive": True,
           "required_classes": ["A.pairs", "B.filter_cases", "C.regenerate_cases", "C.mala_cases", "C.hmc_cases",
                                "B.shape_with_vector_leaf", "B.shape_with_cond_leaf"]},
    thorough={"shards": 16, "timeout_s": 3 * 3600, "depth2": "full", "n_filter": 480, "n_agree": 30, "exhaustive": True,
              "required_classes": ["A.pairs", "B.filter_cases", "C.regenerate_cases", "C.mala_cases", "C.hmc_cases"]},
    assumptions=["the alphabet {a,b,c} and nesting bound 3 are representative: the selection classes never inspect the "
                 "characters of an address, only equality"],
    exhaustive=True,
)

GFI_LEVEL_NOTE = ("Trusted base: harness/jaxcompat.py; the model-IR builder (harness/modelir.py) and the numpy/scipy reference "
                  "interpreter (harness/refmodel.py) share only the deterministic expression evaluator; float32-vs-float64 "
                  "tolerance atol=2e-4+3e-6*sum|terms|; statistical decisions two-stage (1e-3 then 1e-9 on 8x fresh draws).")

reg(
    "C01",
    "Programs are drawn from the model-IR grammar (distributions incl. event-shaped ones, @gen calls with kwargs, Vmap / "
    "vmapped distributions / repeat, Scan, Cond with shared addresses; nesting depth <= 3; combinators applied directly to "
    "combinators: dist.vmap().vmap(), Scan(f).vmap(), Scan(f.vmap()), Cond(f.vmap(), g.vmap()), Cond(f, g).vmap() with per-lane "
    "conditions) together with arguments; a case "
    "is one program x argument tuple, run in the modes seed / jit(seed) / vmap-over-keys / unseeded eager. Non-trivial: "
    ">= 2 sites with a data dependency between them, or >= 1 combinator. Distinct = distinct hash of (program, args).",
    quick={"shards": 16, "timeout_s": 3000, "n_programs": 6, "n1": 400,
           "required_classes": ["C01.prog_with_vvdist", "C01.prog_with_vscan", "C01.prog_with_scanv", "C01.prog_with_condv", "C01.prog_with_vcond", "C01.prog_with_scan", "C01.prog_with_vmap", "C01.prog_with_cond", "C01.prog_with_call",
                                "C01.prog_with_kwargs", "C01.prog_with_event", "C01.law_exact-pmf", "C01.law_pit"]},
    thorough={"shards": 16, "timeout_s": 4 * 3600, "n_programs": 24, "n1": 1500,
              "required_classes": ["C01.prog_with_scan", "C01.prog_with_vmap", "C01.prog_with_cond", "C01.law_exact-pmf", "C01.law_pit"]},
)

reg(
    "C02",
    "A case is (program from the model-IR grammar, arguments, constraint map over a subset S of the leaf addresses with "
    "values from the independent reference sampler). Subset classes: none (None and {}), all, partial at top level, "
    "partial inside a Vmap/Scan/Cond/@gen sub-call, a whole sub-call missing. Non-trivial: S is a proper non-empty subset "
    "and the program has a combinator or a data dependency. Distinct = hash of (program, args, S).",
    quick={"shards": 16, "timeout_s": 3000, "n_cases": 7, "n1": 400,
           "required_classes": ["C02.subset_none", "C02.subset_all", "C02.subset_partial_inside_subcall",
                                "C02.subset_whole_subcall_missing", "C02.prog_with_vvdist", "C02.prog_with_vscan", "C02.prog_with_scanv", "C02.prog_with_condv", "C02.prog_with_vcond", "C02.prog_with_scan", "C02.prog_with_vmap", "C02.prog_with_cond"]},
    thorough={"shards": 16, "timeout_s": 4 * 3600, "n_cases": 28, "n1": 1500,
              "required_classes": ["C02.subset_none", "C02.subset_all", "C02.subset_partial_inside_subcall", "C02.subset_whole_subcall_missing"]},
)

reg(
    "C03",
    "A case is (program, old args, old trace obtained by generate with a random constraint subset, new args = old args plus a "
    "generated perturbation, update-constraint subset with new values drawn from the reference conditional priors). The "
    "classifier detects whether the change flips a Cond predicate (class counter 'flip'). Non-trivial: constraints non-empty "
    "or args changed, and the program has a combinator or a data dependency. Distinct = hash of the whole case.",
    quick={"shards": 16, "timeout_s": 3000, "n_cases": 12, "n_top": 3,
           "required_classes": ["C03.top_level_scan", "C03.top_level_vmap", "C03.flip", "C03.noflip", "C03.args_changed", "C03.args_same", "C03.constraints_some",
                                "C03.constraints_none", "C03.prog_with_vvdist", "C03.prog_with_vscan", "C03.prog_with_scanv", "C03.prog_with_condv", "C03.prog_with_vcond", "C03.prog_with_scan", "C03.prog_with_vmap", "C03.prog_with_cond"]},
    thorough={"shards": 16, "timeout_s": 4 * 3600, "n_cases": 48, "n_top": 12,
              "required_classes": ["C03.top_level_scan", "C03.flip", "C03.noflip", "C03.args_changed", "C03.constraints_some"]},
)

reg(
    "C04",
    "A case is (program, trace from generate with a random constraint subset, selection expression built from the program's "
    "own address paths - strings, tuples, dicts, all, none, closed under | ^ ~ -, new args: unchanged or perturbed). "
    "Moves that flip a Cond are detected by the reference and only the clauses that the statement keeps for them are "
    "asserted. Non-trivial: the selection selects a proper non-empty subset of the leaves, or the program has a Scan/Vmap "
    "sub-call. Distinct = hash of the whole case.",
    quick={"shards": 16, "timeout_s": 3000, "n_cases": 8, "n1": 400,
           "required_classes": ["C04.sel_none", "C04.sel_all", "C04.sel_proper", "C04.prog_with_scan", "C04.prog_with_vmap", "C04.prog_with_vvdist", "C04.prog_with_vscan", "C04.prog_with_scanv", "C04.prog_with_condv", "C04.prog_with_vcond",
                                "C04.prog_with_cond", "C04.selection_reaches_into_subcall", "C04.sel_with_connective", "C04.args_changed"]},
    thorough={"shards": 16, "timeout_s": 4 * 3600, "n_cases": 32, "n1": 1500,
              "required_classes": ["C04.sel_none", "C04.sel_all", "C04.sel_proper", "C04.prog_with_scan", "C04.prog_with_vmap"]},
)

reg(
    "C05",
    "A case is a generated history: program + constrained initial generate (constrained addresses = 'observed'), then a list "
    "of operations drawn from {update(new args, constraint subset), regenerate(selection), mh(selection), mala, hmc, jit "
    "round trip, vectorize(n regenerations)->index lane, vectorize->resample_vectorized_trace(categorical|systematic)->index "
    "lane}; the invariant (reference-model coherence, observed values, telescoping of consecutive updates) is checked after "
    "every step. Non-trivial: >= 3 executed steps of >= 2 different kinds including a kernel or regenerate. Distinct = hash "
    "of the whole history.",
    quick={"shards": 16, "timeout_s": 3000, "n_histories": 6, "max_ops": 8, "n_nest": 2,
           "required_classes": ["C05.step_update", "C05.step_regenerate", "C05.step_mh", "C05.step_mala", "C05.step_hmc",
                                "C05.step_jit", "C05.step_vector", "C05.pair_update>update"]},
    thorough={"shards": 16, "timeout_s": 4 * 3600, "n_histories": 20, "max_ops": 12, "n_nest": 6,
              "required_classes": ["C05.step_update", "C05.step_regenerate", "C05.step_mh", "C05.step_mala", "C05.step_hmc", "C05.step_jit", "C05.step_vector"]},
)

reg(
    "C12",
    "A case is (N in 1..64, log-weight vector of a generated class: generic / degenerate (one finite) / partly -inf / "
    "near-uniform / wide dynamic range / exactly uniform, optionally shifted as a whole by -60 / -250 / -1000 / +70 (resampling depends on "
    "the normalised weights only), method, accumulated estimate, key). Particles are a genuine "
    "vectorized trace whose every leaf encodes its lane. For systematic resampling the random offset is scripted and "
    "EVERY cell of the partition of (0,1) induced by the breakpoints {N*C_j - i} is probed (midpoint and both edges). "
    "Non-trivial: N >= 2 and weights not all equal. Distinct = (N, method, weights rounded to 1e-3).",
    quick={"shards": 16, "timeout_s": 3000, "n_cases": 40, "n_runs": 1500, "stat_every": 8,
           "required_classes": ["C12.systematic", "C12.categorical", "C12.w_degenerate", "C12.w_partly_neg_inf", "C12.w_near_uniform",
                                "C12.w_wide_range", "C12.w_generic", "C12.w_mildly_uneven", "C12.N_1", "C12.N_large", "C12.offset_cells_probed", "C12.common_shift_down", "C12.common_shift_up"]},
    thorough={"shards": 16, "timeout_s": 3 * 3600, "n_cases": 160, "n_runs": 6000, "stat_every": 4,
              "required_classes": ["C12.systematic", "C12.categorical", "C12.w_degenerate", "C12.w_partly_neg_inf", "C12.N_1"]},
)

reg(
    "C20",
    "HMM cases: K,M in 1..4, T in 1..6, initial/transition/emission rows from a weight strategy with forced zeros (sparse) in a "
    "third of the cases, observation sequence sampled from the model (positive probability). Linear-Gaussian cases: d_state, "
    "d_obs in 1..3 (independently, so d_obs != d_state in most), T in 1..6, A and C generated, SPD covariances B B^T + lambda I. "
    "Oracles: brute force over all K^T state sequences; dense joint Gaussian conditioning in float64. Non-trivial: T >= 2 and "
    "(sparse or K != M) for HMMs, T >= 2 and d_obs != d_state for LG. Long-sequence HMM cases (T in {80, 200, 500}, or 12-30 "
    "steps that repeatedly observe a symbol of emission probability ~1e-9, so that the unnormalised forward messages leave the "
    "float32 range) are compared with a float64 scaled forward recursion that is itself checked against brute force on a prefix; "
    "long-horizon linear-Gaussian cases (T in {40, 120}, contractive dynamics) with a float64 Kalman filter / RTS smoother that is "
    "itself checked against dense conditioning on a prefix. "
    "Distinct = hash of the case.",
    quick={"shards": 16, "timeout_s": 3000, "n_cases": 24, "n1": 4000, "stat_every": 3,
           "required_classes": ["C20.hmm", "C20.lg", "C20.hmm_sparse", "C20.hmm_T1", "C20.lg_nonsquare", "C20.lg_T1", "C20.lg_square", "C20.hmm_long",
                                "C20.hmm_long_rare_symbol", "C20.hmm_long_T>=80", "C20.lg_long"]},
    thorough={"shards": 16, "timeout_s": 3 * 3600, "n_cases": 96, "n1": 20000, "stat_every": 2,
              "required_classes": ["C20.hmm", "C20.lg", "C20.hmm_sparse", "C20.hmm_T1", "C20.lg_nonsquare", "C20.lg_T1"]},
)

reg(
    "C13",
    "A case is (distribution among the 24 exported ones + 4 user-wrapped ones via tfp_distribution/distribution, parameters from "
    "the documented domain, use mode among sample_shape / vmap over keys / modular_vmap / @gen site / keyword parameters / mapped "
    "parameters (positional, keyword, with a per-lane sample_shape)). In addition a fixed sweep of 48 parameter settings at the edge of "
    "the documented domains (probabilities 0, 1, 1e-9, 1-1e-7; logits +-25; scales 1e-3 / 1e3; shapes < 1 and >> 1; large counts and "
    "rates; near-one-hot logits) compares the log density / mass with the float64 reference at quantile points and checks that certain "
    "outcomes are always drawn. "
    "Every run visits every distribution at least once (fixed-parameter sweep) in addition to the generated cases. Each case "
    "evaluates logpdf on 2001 grid points (continuous) or the whole (truncated) support (discrete). Non-trivial: every case "
    "(parameters are never the defaults). Distinct = (distribution, mode, parameters).",
    quick={"shards": 16, "timeout_s": 3000, "n_cases": 12, "n1": 4000,
           "required_classes": ["C13.dist_" + d for d in ["normal", "flip", "categorical", "exponential", "geometric", "multivariate_normal",
                                                          "bernoulli", "binomial", "negative_binomial", "gamma", "dirichlet", "multinomial", "zipf",
                                                          "tfp:Logistic", "custom:shifted_exponential"]] + ["C13.mode_" + m for m in ["sample_shape", "vmap_keys", "modular_vmap", "gen_site", "kwargs", "vmap_mapped_params", "vmap_mapped_kwargs", "vmap_mapped_params_ss"]] + ["C13.edge_of_domain", "C13.mvn_covariance_scale_small"]},
    thorough={"shards": 16, "timeout_s": 3 * 3600, "n_cases": 48, "n1": 20000, "required_classes": ["C13.dist_normal", "C13.dist_geometric"]},
)

reg(
    "C19",
    "A case is a generated program over the state IR - save(name=expr), tag_state(v1, v2, name=...), namespace(f, ns) nesting, "
    "leaf-mode save inside a namespace, lax.scan bodies (nested scans, namespaces around and inside scans), jax.vmap / "
    "modular_vmap around saving code, repeated names, sampling sites - in one of the configurations state(f), jit(state(f)), "
    "seed(state(f)). Every saved value is a known affine function of (argument, scan index, lane, carry). Non-trivial: a save "
    "under >= 2 enclosing constructs of different kinds. The same transformed function object is called a second time with another "
    "argument value and the dictionary of the first call is read only afterwards. Distinct = hash of the case.",
    quick={"shards": 16, "timeout_s": 3000, "n_cases": 40,
           "required_classes": ["C19.cfg_eager", "C19.cfg_jit", "C19.cfg_seed", "C19.save_under_ns+scan", "C19.save_under_scan+ns",
                                "C19.save_under_scan+scan", "C19.save_under_vmap", "C19.save_under_scan"]},
    thorough={"shards": 16, "timeout_s": 3 * 3600, "n_cases": 240, "required_classes": ["C19.cfg_eager", "C19.cfg_jit", "C19.cfg_seed", "C19.save_under_ns+scan"]},
)

reg(
    "C18",
    "The grid n_steps in 1..max_n x burn_in in 0..n-1 x thinning in 1..max_thin x n_chains is ENUMERATED for every listed "
    "target/kernel (mh, mala, hmc on scalar and vector-valued choices, a discrete target, and a composite kernel that saves "
    "several diagnostics under namespaces). Each cell compares chain(...) with the un-thinned run under the same key; each "
    "un-thinned run is checked to be a kernel iteration from the initial trace. Non-trivial: burn_in > 0 or thinning > 1. "
    "Cells are distinct by construction (hash of target, n, b, t, chains).",
    quick={"shards": 16, "timeout_s": 3000, "max_n": 6, "max_thin": 3, "chains": [1, 2], "exhaustive": True,
           "targets": ["cont_mh", "cont_composite", "cont_inner_scan", "vec_hmc", "disc_mh"],
           "required_classes": ["C18.target_cont_mh", "C18.target_cont_composite", "C18.target_cont_inner_scan", "C18.target_vec_hmc", "C18.target_disc_mh", "C18.chains_1", "C18.chains_2", "C18.full_runs_checked"]},
    thorough={"shards": 16, "timeout_s": 3 * 3600, "max_n": 8, "max_thin": 4, "chains": [1, 2, 3], "exhaustive": True,
              "targets": ["cont_mh", "cont_mala", "cont_hmc", "cont_composite", "cont_inner_scan", "vec_mala", "vec_hmc", "disc_mh"],
              "required_classes": ["C18.target_cont_mh", "C18.chains_1", "C18.chains_3"]},
    exhaustive=True,
)

reg(
    "C07",
    "A case is a program *shape* from the grammar site | seq | lax.scan | modular_vmap | lax.cond (both branches sampling) | "
    "@gen-simulate, nested to depth 3, whose sites all share parameters (normal(0,1) / uniform(0,1), some with a sample_shape), "
    "and a key; nested seeds (seed(body)(fold_in(inner_key, j)) called inside the seeded function, the inner key being an argument "
    "derived from the outer key) outside of loops. In addition EVERY chain of enclosing constructs over {scan, vmap, cond, gen} up to "
    "depth 3 (84 templates) is visited with the equal-draw rule. Every scalar draw is a 'position'. Non-trivial: a site under >= 2 "
    "different enclosing constructs. "
    "Distinct = hash of the shape.",
    quick={"shards": 16, "timeout_s": 3000, "n_cases": 12, "n1": 4000,
           "required_classes": ["C07.site_under_scan", "C07.site_under_vmap", "C07.site_under_cond", "C07.site_under_gen",
                                "C07.nest_scan>scan", "C07.nest_scan>vmap", "C07.nest_vmap>scan", "C07.nest_scan>cond", "C07.nest_vmap>site_ss", "C07.nesting_template",
                                "C07.site_under_nseed"]},
    thorough={"shards": 16, "timeout_s": 3 * 3600, "n_cases": 48, "n1": 16000,
              "required_classes": ["C07.nest_scan>scan", "C07.nest_scan>vmap", "C07.nest_vmap>scan", "C07.nest_scan>cond"]},
)

reg(
    "C06",
    "A case is a generated history over 1-2 generated programs (same shape grammar as C07, with @gen-simulate, nested "
    "scans, conds, modular_vmap, sample_shape sites, positional/keyword/vector arguments): runs (program, key, mode in eager / "
    "jit / vmap-over-keys / jit-of-vmap, argument) interleaved with interference (unseeded sampling that advances the global "
    "counter, unseeded program runs, jax.clear_caches(), seeded runs with another argument shape that perturb the staging "
    "cache). Non-trivial: the history contains a repeat separated from its first occurrence by >= 1 interference op and a "
    "program with a scan, cond or vectorized site. Scalar arguments take several values under the same calling convention "
    "(positional 3.0 / 0.5, keyword 2.0 / 4.0): since every position is scale * draw, results for two values of one (program, key) "
    "must differ exactly by the ratio of the scales. Programs may contain nested seeds; a separate family wraps the program in "
    "jax.checkpoint / a custom_jvp function behind parameterised equations (seed may refuse those with the dedicated error - counted - "
    "but if it accepts them the result must be pure). Distinct = hash of the history.",
    quick={"shards": 16, "timeout_s": 3000, "n_histories": 8,
           "required_classes": ["C06.mode_eager", "C06.mode_jit", "C06.mode_vmap_keys", "C06.mode_jit_vmap_keys", "C06.repeat_after_interference",
                                "C06.prog_with_scan", "C06.prog_with_cond", "C06.prog_with_vmap", "C06.prog_with_gen", "C06.prog_with_nseed", "C06.prog_with_remat",
                                "C06.same_key_other_argument_value_compared"]},
    thorough={"shards": 16, "timeout_s": 3 * 3600, "n_histories": 32,
              "required_classes": ["C06.mode_eager", "C06.mode_jit", "C06.mode_vmap_keys", "C06.mode_jit_vmap_keys", "C06.repeat_after_interference"]},
)

reg(
    "C15",
    "A case is a deterministic JAX program generated from an op grammar over a value stack (elementwise arithmetic, "
    "comparisons/where, floor / integer round trips / argmax / value-computed gather indices, static and dynamic slicing, "
    "reshape/transpose/stack/concatenate/cumsum/sort, reductions incl. logsumexp, dot/matmul/einsum/outer, lax.cond with a "
    "data-dependent or constant predicate, N-way switch, custom_jvp functions whose declared rule differs from the derivative of "
    "their body (straight-through round, a declared tangent 3 cos(v) for sin(v), relu exactly at 0), complex intermediates, fft) "
    "and an argument pytree spec (scalars, vectors, matrices, dicts, nested tuples) with "
    "random primals and tangents. Oracle: jax.jvp / jax.grad / f. Non-trivial: >= 3 ops incl. a shape-changing one, or a "
    "non-differentiable intermediate, or a pytree argument. Distinct = hash of the case.",
    quick={"shards": 16, "timeout_s": 3000, "n_cases": 30,
           "required_classes": ["C15.args_scalar", "C15.args_vector", "C15.args_matrix", "C15.args_dict", "C15.args_tuple_nested", "C15.op_cond",
                                "C15.op_linalg", "C15.op_index", "C15.nondifferentiable_intermediate", "C15.cond_data", "C15.cond_const"]},
    thorough={"shards": 16, "timeout_s": 3 * 3600, "n_cases": 240, "required_classes": ["C15.args_dict", "C15.op_cond", "C15.op_linalg"]},
)

reg(
    "C14",
    "Placements are ENUMERATED: a sampling core (dist.sample, gf.simulate, bare gf() call, sample_shape site, ADEV site, a site behind "
    "parameterised equations, a plain / ADEV site behind equations that carry sub-jaxprs such as jnp.clip, jnp.where, lax.cond) inside "
    "every stack of wrappers of the stated depths over {jit, scan body, while_loop body, fori_loop body, cond, switch, grad, "
    "value_and_grad, vmap, nested jit, checkpoint, custom_jvp, lax.map, modular_vmap}, with seed applied nowhere / outermost / "
    "directly around the core. Each placement is built and called repeatedly (3 calls unseeded; 4 keys + a repeat seeded). "
    "Non-trivial: depth >= 2 or a construct the Seed interpreter does not special-case. Distinct by construction.",
    quick={"shards": 16, "timeout_s": 3000, "depths": [1, 2], "cores_deep": ["site_after_ops", "gf_simulate"], "exhaustive": True,
           "required_classes": ["C14.seed_none", "C14.seed_outer", "C14.seed_inner", "C14.depth_1", "C14.depth_2", "C14.outcome_lowering_error", "C14.outcome_value", "C14.outcome_vmap_error"]},
    thorough={"shards": 16, "timeout_s": 3 * 3600, "depths": [1, 2], "cores_deep": ["dist_sample", "gf_simulate", "gf_call", "sample_shape", "adev_site", "site_after_ops", "site_after_calls", "adev_site_after_calls"], "sample_depth3": 800, "exhaustive": True,
              "required_classes": ["C14.seed_none", "C14.seed_outer", "C14.depth_2", "C14.outcome_lowering_error"]},
    exhaustive=True,
)

reg(
    "C08",
    "Part 1/2: a case is (mapped function from a statement grammar: deterministic ops, normal.logpdf sites, normal.sample sites "
    "with and without sample_shape, inner modular_vmap, lax.scan, lax.cond; 1-3 arguments with generated per-lane shapes of "
    "differing rank; in_axes per argument in {0, 1, -1, None} given as tuple / dict pytree / single int; axis_size given or "
    "inferred; batch size mostly different from every lane dimension, sometimes equal). Oracle: apply f to every slice and "
    "stack, jax.vmap differential, per-lane PIT. Part 3: a generated model-IR program vectorized with Vmap/repeat at top "
    "level - lane i of the trace is scored by the reference on lane i's arguments. Non-trivial: in_axes not all 0, or nested "
    "modular_vmap, or rank-mismatched parameters, or a sample_shape site (all Part-3 cases). Distinct = hash of the case.",
    quick={"shards": 16, "timeout_s": 3000, "n_cases": 14, "n_vmapgf": 3, "n1": 1500,
           "required_classes": ["C08.axis_other", "C08.axis_none", "C08.axis_0", "C08.feat_sample", "C08.feat_sample_shape", "C08.feat_logpdf",
                                "C08.feat_inner_vmap", "C08.feat_scan", "C08.feat_cond", "C08.rank_mismatched_params", "C08.packing_dict_last",
                                "C08.axis_size_inferred", "C08.B_equals_a_lane_dim", "C08.vmap_combinator", "C08.vmap_combinator_axis_none"]},
    thorough={"shards": 16, "timeout_s": 4 * 3600, "n_cases": 56, "n_vmapgf": 12, "n1": 6000,
              "required_classes": ["C08.axis_other", "C08.feat_sample_shape", "C08.rank_mismatched_params", "C08.vmap_combinator"]},
)

reg(
    "C09",
    "Three case kinds. (ir) a model-IR program with observed addresses, a kernel (mh / mala / hmc), a selection of free leaves "
    "(for mala/hmc: unbounded continuous ones, incl. array-valued and inside Vmap/Scan/Cond sub-calls), step size and leapfrog "
    "count: the kernel's internal randomness is scripted, the proposal and the acceptance threshold are compared with the "
    "float64 reference MH rule. (mixture) the mixture-indicator family z -> Cond(observed branches) with generated parameters: "
    "scripted threshold + full transition matrix. (stationary) conjugate normal targets in 1-3 dimensions: one seeded step "
    "from exact posterior samples, KS + a detailed-balance statistic; a third of them with a tight likelihood (s in {0.002, 0.005, "
    "0.01}, |grad log p| of several hundred over the bulk of the posterior) and a step size relative to the posterior sd. "
    "Non-trivial: every case with a non-empty selection. "
    "Distinct = hash of the case.",
    quick={"shards": 16, "timeout_s": 3000, "n_ir": 6, "n_fam": 3, "n1": 3000,
           "required_classes": ["C09.ir_mh", "C09.ir_mala", "C09.ir_hmc", "C09.selected_array_valued", "C09.selection_inside_subcall",
                                "C09.threshold_checked", "C09.mixture_indicator", "C09.stationary_mh", "C09.stationary_mala", "C09.stationary_hmc", "C09.stationary_d2",
                                "C09.stationary_steep_target"]},
    thorough={"shards": 16, "timeout_s": 4 * 3600, "n_ir": 24, "n_fam": 12, "n1": 12000,
              "required_classes": ["C09.ir_mh", "C09.ir_mala", "C09.ir_hmc", "C09.mixture_indicator", "C09.stationary_hmc"]},
)

reg(
    "C10",
    "A case is (model family: discrete step model with generated transition/emission/proposal tables, K,M in 2..3, T in 1..4, "
    "or 1-d linear-Gaussian step model; default or custom proposal; N in {1,2,3,5,8}; either a hand-composed pipeline "
    "init -> generated moves over {extend, resample(categorical|systematic), rejuvenate(mh)} or rejuvenation_smc with/without "
    "kernel/proposal, return_all_particles). Deterministic: every particle's log weight after every init/extend equals the "
    "reference log p(choices, obs so far) - log q(choices); rejuvenate leaves weights untouched. Statistical: "
    "E[exp(log_marginal_likelihood())] = exact marginal likelihood (brute force / Kalman), and exp(log_marginal_likelihood()) * "
    "particles.estimate(1[z=k]) (the library's own weighted average) = unnormalised posterior; a quarter of the pipelines end on a "
    "resampling step. Non-trivial: >= 1 extend or resample after init, or a custom proposal. "
    "Distinct = hash of the case.",
    quick={"shards": 16, "timeout_s": 3000, "n_cases": 6, "n1": 3000,
           "required_classes": ["C10.pipeline", "C10.rejuvenation_smc", "C10.family_D", "C10.family_G", "C10.proposal_custom", "C10.proposal_default",
                                "C10.move_extend", "C10.move_resample_sys", "C10.move_resample_cat", "C10.move_rejuvenate", "C10.N_1", "C10.N_many", "C10.rsmc_with_kernel"]},
    thorough={"shards": 16, "timeout_s": 4 * 3600, "n_cases": 24, "n1": 12000,
              "required_classes": ["C10.pipeline", "C10.rejuvenation_smc", "C10.family_D", "C10.family_G", "C10.proposal_custom", "C10.N_1"]},
)

reg(
    "C11",
    "A case is an expectation program from a grammar: 1-3 ADEV sites (flip_enum, flip_enum_parallel, categorical_enum_parallel, "
    "flip_reinforce, flip_mvd, batched flip_enum / flip_mvd sites (two Bernoulli lanes in one site, coupled by the objective), "
    "geometric_reinforce, normal/uniform reparam and reinforce, multivariate normal diag/full (non-diagonal covariance) reparam, "
    "multivariate normal reinforce) whose parameters are smooth functions of 1-2 arguments and of earlier draws, a smooth return "
    "expression optionally selecting on a discrete draw (arithmetic where or lax.cond) or a lax.cond on theta; configuration "
    "seed / jit(seed) / modular_vmap over a batch of thetas. Oracle: exact enumeration + Gauss quadrature in float64 and "
    "Richardson finite differences. Enumeration-only programs must be exact for every key; others are tested by calibrated "
    "block-mean t-tests over thousands of keys, reparameterised-only programs additionally by the per-draw pathwise identity. "
    "Non-trivial: >= 2 estimator kinds, or a parameter depending on an earlier draw, or a cond/where. Distinct = hash of the case.",
    quick={"shards": 16, "timeout_s": 3000, "n_cases": 8, "n1": 6000,
           "required_classes": ["C11.all_enum_exact", "C11.stochastic_calibrated", "C11.composition_of_different_estimator_kinds", "C11.param_depends_on_earlier_draw",
                                "C11.site_flip_enum", "C11.site_flip_enum_parallel", "C11.site_categorical_enum_parallel", "C11.site_flip_mvd", "C11.site_flip_reinforce",
                                "C11.site_normal_reparam", "C11.site_normal_reinforce", "C11.site_mvn_reparam", "C11.batched_bernoulli_site", "C11.mode_jit", "C11.mode_vmap_thetas", "C11.ret_cond"]},
    thorough={"shards": 16, "timeout_s": 4 * 3600, "n_cases": 32, "n1": 24000,
              "required_classes": ["C11.all_enum_exact", "C11.stochastic_calibrated", "C11.composition_of_different_estimator_kinds"]},
)

reg(
    "C17",
    "Conjugate cases: normal-normal targets in 1-3 dimensions with generated SPD prior/likelihood covariances and data; "
    "mean_field_normal_family / full_covariance_normal_family with reparam and reinforce estimators, a two-site family, and user-written "
    "families of vectorized scalar ADEV sites (one location shared by all coordinates, or one each; a scale per coordinate); parameters generic and at "
    "the exact posterior; oracles are the closed-form evidence, posterior, ELBO and (finite-difference of the closed form) "
    "gradient. Recursion cases: optimize_vi on zero-variance objectives (sampling-free and enumeration-only) against the numpy "
    "recursion params + lr * grad for every iterate, with the objective scaled by 1, 1e4 or 1e-3 (learning rate rescaled inversely, so "
    "that gradients of norm 1e4 and 1e-3 occur). Non-trivial: all conjugate cases (q is neither prior nor posterior for the "
    "statistical part); recursion cases with n_iterations >= 2. Distinct = hash of the case.",
    quick={"shards": 16, "timeout_s": 3000, "n_cases": 5, "n1": 4000,
           "required_classes": ["C17.family_mean_field", "C17.family_full_cov", "C17.estimator_reparam", "C17.estimator_reinforce",
                                "C17.posterior_tightness_checked", "C17.recursion_quadratic", "C17.recursion_enum", "C17.recursion_scale_10000", "C17.family_shared_mean"]},
    thorough={"shards": 16, "timeout_s": 4 * 3600, "n_cases": 20, "n1": 16000,
              "required_classes": ["C17.family_mean_field", "C17.family_full_cov", "C17.posterior_tightness_checked", "C17.recursion_quadratic"]},
)
NOT_CLAIMED = {}
