"""Static per-property metadata and budgets (no jax import here).

PLANS[prop][tier]: shards, timeout_s (wall guard => 'inconclusive', exit 2), required_classes
(class counters that must be non-zero, else exit 2 'generator does not reach the class'),
plus free-form budget knobs read by the property module through plan(ctx).
META[prop]: the non-triviality rule that `distinct_nontrivial` counts, assumptions.
"""

PLANS = {}
META = {}


def reg(prop, rule, quick, thorough, assumptions=(), exhaustive=False):
    META[prop] = {"rule": rule, "assumptions": list(assumptions), "exhaustive": exhaustive}
    PLANS[prop] = {"quick": quick, "thorough": thorough}


def plan(ctx):
    return PLANS[ctx.prop][ctx.tier]


reg(
    "C16",
    "A: every selection expression over the atom set closed under |,^,~ to the stated connective depth x every "
    "address path of length 1..3 over {a,b,c} is ENUMERATED (not sampled); a pair is non-trivial when the expression "
    "has >=1 connective and the path has length >=2; pairs are distinct by construction (enumeration without "
    "repetition), counted. B: filter/merge partition on generated nested choice-map shapes (scalar, vector, "
    "Vmap- and Cond-produced leaves); C: agreement of filter with what seed(regenerate) resamples and what "
    "mala/hmc move, on generated programs; B/C cases are distinct by hash of (shape, expression).",
    quick={"shards": 16, "timeout_s": 1200, "depth2": "mixed", "n_filter": 60, "n_agree": 5, "exhaustive": True,
           "required_classes": ["A.pairs", "B.filter_cases", "C.regenerate_cases", "C.mala_cases", "C.hmc_cases",
                                "B.shape_with_vector_leaf", "B.shape_with_cond_leaf"]},
    thorough={"shards": 16, "timeout_s": 3 * 3600, "depth2": "full", "n_filter": 600, "n_agree": 40, "exhaustive": True,
              "required_classes": ["A.pairs", "B.filter_cases", "C.regenerate_cases", "C.mala_cases", "C.hmc_cases"]},
    assumptions=["the alphabet {a,b,c} and nesting bound 3 are representative: the selection classes never inspect the "
                 "characters of an address, only equality"],
    exhaustive=True,
)

GFI_LEVEL_NOTE = ("Trusted base: harness/jaxcompat.py; the model-IR builder (harness/modelir.py) and the numpy/scipy reference "
                  "interpreter (harness/refmodel.py) share only the deterministic expression evaluator; float32-vs-float64 "
                  "tolerance atol=2e-4+3e-6*sum|terms|; statistical decisions two-stage (1e-3 then 1e-9 on 8x fresh draws).")

reg(
    "C01",
    "Programs are drawn from the model-IR grammar (distributions incl. event-shaped ones, @gen calls with kwargs, Vmap / "
    "vmapped distributions / repeat, Scan, Cond with shared addresses; nesting depth <= 3) together with arguments; a case "
    "is one program x argument tuple, run in the modes seed / jit(seed) / vmap-over-keys / unseeded eager. Non-trivial: "
    ">= 2 sites with a data dependency between them, or >= 1 combinator. Distinct = distinct hash of (program, args).",
    quick={"shards": 16, "timeout_s": 1500, "n_programs": 6, "n1": 400,
           "required_classes": ["C01.prog_with_scan", "C01.prog_with_vmap", "C01.prog_with_cond", "C01.prog_with_call",
                                "C01.prog_with_kwargs", "C01.prog_with_event", "C01.law_exact-pmf", "C01.law_pit"]},
    thorough={"shards": 16, "timeout_s": 4 * 3600, "n_programs": 120, "n1": 2500,
              "required_classes": ["C01.prog_with_scan", "C01.prog_with_vmap", "C01.prog_with_cond", "C01.law_exact-pmf", "C01.law_pit"]},
)
NOT_CLAIMED = {}
