"""Compat-layer self-test (setup_cmd): genjax through the shim - simulate, scan, grad, ADEV, modular_vmap."""
import sys


def main():
    from harness import env
    import jax
    import jax.numpy as jnp
    from genjax import Scan, const, gen, normal, seed, modular_vmap
    from genjax.adev import expectation, normal_reparam

    @gen
    def step(c, x):
        n = normal(c + x, 1.0) @ "n"
        return n, n

    @gen
    def m(a):
        z = normal(a, 1.0) @ "z"
        r = Scan(step, length=const(3))(z, jnp.zeros(3)) @ "s"
        return r[0]

    tr = jax.jit(seed(m.simulate))(env.key(0), 1.0)
    lp, _ = m.assess(tr.get_choices(), 1.0)
    assert abs(float(lp) + float(tr.get_score())) < 1e-4
    g = jax.grad(lambda a: m.assess(tr.get_choices(), a)[0])(1.0)
    assert jnp.isfinite(g)
    v = seed(modular_vmap(lambda mu: normal.sample(mu, 1.0), in_axes=0))(env.key(1), jnp.arange(4.0))
    assert v.shape == (4,)

    @expectation
    def obj(th):
        x = normal_reparam(th, 1.0)
        return x * x

    ge = seed(obj.grad_estimate)(env.key(2), 0.5)
    assert jnp.isfinite(ge)
    print("selftest ok: genjax", env.genjax.__file__)
    return 0


if __name__ == "__main__":
    try:
        rc = main()
    except BaseException as e:  # noqa: BLE001
        import traceback

        traceback.print_exc()
        print("HARNESS-ERROR selftest failed:", e)
        rc = 2
    sys.exit(rc)
