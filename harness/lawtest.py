"""Law of the freshly drawn part of a trace (shared by C01 simulate, C02 generate, C04 regenerate).

check_law(...) draws batches of traces through `draw(n, stage) -> (choices, score, retval, extra)` (all batched on
axis 0, numpy) and decides whether the *fresh* sites (those not in `fixed`) follow their conditional prior given the
values they depend on:
  - all-discrete programs with small support: exact pmf by enumeration (chi-square + zero-probability rule), and every
    observed outcome's score / retval / extra compared deterministically with the reference;
  - otherwise: Rosenblatt / (randomized) PIT through the reference conditional priors, KS per position, pairwise
    Spearman, identical-draw detection; per-trace score / retval / extra compared with the reference.
`extra_ref(ref_score_result) -> expected extra` (e.g. the generate weight) may be None.
"""
import numpy as np

from harness import gfi, refmodel, stats


def rpit(dist, v, ps, rng):
    u = refmodel.pit(dist, v, ps)
    if u is not None:
        return u
    supp = refmodel.support(dist, ps)
    pm = np.exp([refmodel.logpdf(dist, s, ps) for s in supp])
    j = supp.index(bool(v) if dist == "flip" else int(v))
    return [float(pm[:j].sum() + rng.random() * pm[j])]


def lane(tree, i):
    if isinstance(tree, dict):
        return {k: lane(v, i) for k, v in tree.items()}
    return np.asarray(tree)[i]


class _NoCtx:
    stat_tests = 0
    stat_stage2 = 0


def all_discrete(prog):
    return all(s[2] in refmodel.DISCRETE for fn in prog["fns"].values() for s in fn["body"] if s[0] in ("draw", "vdist", "vvdist"))


def check_law(ctx, prog, ref, rargs, rkw, draw, n1, F, seed, fixed=None, fixed_paths=(), extra_name="extra", extra_ref=None,
              tag="law", max_pairs=40, enum_limit=2048, switch_probe=None):
    """fixed: nested dict of constrained values (sites in it are read, not tested); fixed_paths: set of leaf paths in it.
    switch_probe(choices) -> True if the outcome switched the branch of a Cond relative to the starting trace: such a move
    shows the other branch's hidden values at 'fixed' addresses under that Cond, which is outside what C04 claims - the exact
    pmf test is then abandoned (counted), not failed."""
    c = ctx if ctx is not None else _NoCtx()
    fails, info = [], {}
    fixed_paths = set(fixed_paths)
    enum = ref.enumerate(rargs, rkw, limit=enum_limit, given=fixed) if all_discrete(prog) else None
    info["law"] = "exact-pmf" if enum else "pit"

    if enum:
        # q(completion) = prod over fresh sites = exp(joint - sum of fixed-site log-probs)
        table = {}
        for ch, lp, ret, key in enum:
            r = ref.score(rargs, rkw, ch)
            wfix = sum(float(np.sum(r["site"][p])) for p in fixed_paths if p in r["site"])
            table[key] = {"q": lp - wfix, "lp": lp, "ret": ret, "extra": extra_ref(r) if extra_ref else None, "mag": r["mag"]}
        keys_sorted = sorted(table)
        probs = np.exp([table[k]["q"] for k in keys_sorted])
        info["support"] = len(table)
        info["q_total"] = float(probs.sum())
        det = {}

        def pfun(n, stage):
            ch, sc, rv, ex = draw(n, stage)
            counts = dict.fromkeys(keys_sorted, 0)
            for i in range(n):
                k = refmodel.outcome_key(lane(ch, i))
                if k not in table:
                    if switch_probe is not None and switch_probe(lane(ch, i)):
                        det["switch"] = k
                        return 1.0, {}
                    det["outside"] = k
                    return 0.0, {"outcome_outside_support": str(k)}
                counts[k] += 1
                t = table[k]
                if "score" not in det and not gfi.close(sc[i], -t["lp"], t["mag"]):
                    det["score"] = (k, float(sc[i]), -t["lp"])
                if "ret" not in det and not gfi.retclose(rv[i], t["ret"]):
                    det["ret"] = (k, np.asarray(rv[i]).tolist(), np.asarray(t["ret"]).tolist())
                if extra_ref and "extra" not in det and not gfi.close(ex[i], t["extra"], t["mag"]):
                    det["extra"] = (k, float(ex[i]), t["extra"])
            info.setdefault("observed_outcomes", 0)
            info["observed_outcomes"] = max(info["observed_outcomes"], sum(1 for v in counts.values() if v))
            return stats.chi2_p([counts[k] for k in keys_sorted], probs / probs.sum())

        res = stats.two_stage(c, pfun, n1 * 4)
        if "switch" in det and "outside" not in det:
            info["law"] = "abandoned-cond-switch"
            return fails, info
        if "outside" in det:
            fails.append((f"{tag}.outcome_outside_support|{F}", f"produced outcome {det['outside']} which has reference probability 0 (or contradicts the constraints)"))
        elif res:
            fails.append((f"{tag}.pmf|{F}", f"outcome frequencies differ from the exact conditional-prior pmf ({len(table)} outcomes): {res}"))
        if "score" in det:
            fails.append((f"{tag}.score_per_outcome|{F}", f"outcome {det['score'][0]}: trace score {det['score'][1]} != -log p {det['score'][2]}"))
        if "ret" in det:
            fails.append((f"{tag}.retval_per_outcome|{F}", f"outcome {det['ret'][0]}: retval {det['ret'][1]} != reference {det['ret'][2]}"))
        if "extra" in det:
            fails.append((f"{tag}.{extra_name}_per_outcome|{F}", f"outcome {det['extra'][0]}: {extra_name} {det['extra'][1]} != reference {det['extra'][2]}"))
        return fails, info

    rng = np.random.default_rng(seed + 77)
    cache = {}

    def pits(n, stage):
        if stage in cache:
            return cache[stage]
        ch, sc, rv, ex = draw(n, stage)
        cols, bad = {}, None
        for i in range(n):
            chi = lane(ch, i)
            us = {}
            acc = [0.0, 0.0]
            per = refmodel.Store()

            def site(path, idx, dist, ps):
                g = np.asarray(refmodel.cget(chi, path))
                v = g[idx] if idx else g
                lp = refmodel.logpdf(dist, v, ps)
                acc[0] += lp
                acc[1] += abs(lp)
                per.put(path, idx, lp)
                if path not in fixed_paths:
                    for j, u in enumerate(rpit(dist, v, ps, rng)):
                        us[(path, idx, j)] = u
                return v

            try:
                ret = ref.run(prog["main"], rargs, rkw, site)
            except Exception as e:  # noqa: BLE001
                cache[stage] = ("shape", f"{type(e).__name__}: {e}")
                return cache[stage]
            if bad is None:
                if not gfi.close(sc[i], -acc[0], acc[1]):
                    bad = ("score", i, float(sc[i]), -acc[0], gfi._short(chi))
                elif not gfi.retclose(rv[i], ret):
                    bad = ("retval", i, np.asarray(rv[i]).tolist(), np.asarray(ret).tolist(), gfi._short(chi))
                elif extra_ref:
                    want = extra_ref({"site": {p: per.array(p, np.float64) for p in per.d}, "logp": acc[0], "mag": acc[1], "retval": ret})
                    # an undefined reference (inf - inf: a kept value that is impossible both before and after) decides nothing
                    if not np.isnan(want) and not gfi.close(ex[i], want, acc[1]):
                        bad = (extra_name, i, float(ex[i]), want, gfi._short(chi))
            for k, u in us.items():
                cols.setdefault(k, []).append(u)
        cache[stage] = ("ok", cols, bad, n)
        return cache[stage]

    first = pits(n1, 1)
    if first[0] == "shape":
        return [(f"{tag}.choice_shape|{F}", first[1])], info
    _, cols, bad, n = first
    if bad:
        fails.append((f"{tag}.batch_{bad[0]}|{F}", f"vmapped trace #{bad[1]}: {bad[0]} {bad[2]} != reference {bad[3]}; choices={bad[4]}"))
    full = {k: v for k, v in cols.items() if len(v) == n}
    info["pit_positions"] = len(full)
    for k in sorted(full, key=str):
        def pfun(nn, stage, k=k):
            r = pits(nn, stage)
            col = r[1].get(k, []) if r[0] == "ok" else []
            return stats.ks_uniform_p(col), {"pos": str(k), "n": len(col)}

        res = stats.two_stage(c, pfun, n1)
        if res:
            fails.append((f"{tag}.marginal|{F}", f"site {'/'.join(k[0])}{list(k[1])}[{k[2]}]: fresh draws do not follow the conditional prior given their parents (PIT not uniform): {res}"))
            break
    ks = sorted(full, key=str)
    pairs = [(a, b) for ia, a in enumerate(ks) for b in ks[ia + 1:]][:max_pairs]
    for a, b in pairs:
        if np.allclose(full[a], full[b]) and refmodel_is_cont(prog, a[0]) and refmodel_is_cont(prog, b[0]):
            fails.append((f"{tag}.identical_draws|{F}", f"sites {a} and {b} have identical PIT values in all {n} traces (shared randomness)"))
            break

        def pfun(nn, stage, a=a, b=b):
            r = pits(nn, stage)
            if r[0] != "ok" or a not in r[1] or b not in r[1] or len(r[1][a]) != len(r[1][b]):
                return 1.0, {}
            p, rho = stats.spearman_p(r[1][a], r[1][b])
            return p, {"pair": str((a, b)), "rho": rho}

        res = stats.two_stage(c, pfun, n1)
        if res:
            fails.append((f"{tag}.dependence|{F}", f"Rosenblatt coordinates {a} and {b} are correlated: {res}"))
            break
    return fails, info


def refmodel_is_cont(prog, path):
    """Is the leaf at `path` a continuous site (search all functions for a draw/vdist with that last address)?"""
    a = path[-1]
    for fn in prog["fns"].values():
        for s in fn["body"]:
            if s[0] in ("draw", "vdist", "vvdist") and s[1] == a:
                return s[2] in refmodel.CONTINUOUS
    return True
