"""Program *shapes* for the seed-interpreter properties (C06, C07): sites share parameters so that any sharing of
randomness is visible as equal values / correlation.

Node := ["site", dist, [sample_shape]]       dist in {"normal","uniform"}; standard parameters (0,1)
      | ["seq", [Node]]
      | ["scan", n, Node]                     lax.scan; body samples; outputs stacked
      | ["vmap", n, Node] | ["vmap", n, Node, "p"]   modular_vmap(axis_size=n); with "p" the lanes are mapped over a vector of zeros that
                                              is added to every site's location: the sites' *parameters* then carry the mapped axis
                                              (lane-wise sampler path), their values stay standard draws
      | ["cond", Node, Node]                  lax.cond on (previous draw > threshold); both branches sample
      | ["gen", Node]                         a @gen function whose body is Node (sites addressed), simulated
      | ["nseed", Node, j]                    (opt-in) a nested seed: seed(body)(fold_in(inner_key, j)) called inside the seeded function;
                                              the inner key is an argument of the outer function (f(scale, ikey))
      | ["remat", Node, "checkpoint"|"custom_jvp"]   (C06 only, opt-in) Node inside jax.checkpoint / a custom_jvp function,
                                              after parameterised deterministic equations; seed may refuse such programs
                                              with the dedicated error - if it accepts them the result must be pure
build(node) -> f(scale) returning a flat dict {position: array}; every site value is scale * draw (scale is an argument,
so that 'same program, other argument shape' exists).
"""
from hypothesis import strategies as st


def shapes(max_depth=3, max_leaves=6, nseed=False):
    site = st.tuples(st.just("site"), st.sampled_from(["normal", "normal", "uniform", "uniform_kw", "normal_kw"]), st.sampled_from([[], [], [], [2], [3], [2, 2]])).map(list)

    def ext(ch):
        return st.one_of(
            st.tuples(st.just("seq"), st.lists(ch, min_size=2, max_size=3)).map(list),
            st.tuples(st.just("scan"), st.integers(2, 4), ch).map(list),
            st.tuples(st.just("vmap"), st.integers(2, 3), ch, st.sampled_from(["", "p"])).map(list),
            st.tuples(st.just("cond"), ch, ch).map(list),
            st.tuples(st.just("gen"), ch).map(list),
            *([st.tuples(st.just("nseed"), ch, st.integers(0, 1)).map(list)] * (2 if nseed else 0)),
        )

    out = st.recursive(site, ext, max_leaves=max_leaves)
    return out.map(_no_nseed_in_loops) if nseed else out


def _no_nseed_in_loops(node, in_loop=False, counter=None):
    """A nested seed inside a scan body / vmap lane would reuse one inner key in every iteration (a mistake of the
    program, not of seed): there the nseed node is replaced by its body.  Every remaining nested seed gets its own
    fold-in index (two nested seeds with one key would share their stream by construction)."""
    counter = [0] if counter is None else counter
    k = node[0]
    if k == "site":
        return node
    if k == "seq":
        return ["seq", [_no_nseed_in_loops(c, in_loop, counter) for c in node[1]]]
    if k in ("scan", "vmap"):
        return [k, node[1], _no_nseed_in_loops(node[2], True, counter)] + list(node[3:])
    if k == "cond":
        return ["cond", _no_nseed_in_loops(node[1], in_loop, counter), _no_nseed_in_loops(node[2], in_loop, counter)]
    if k == "nseed":
        if in_loop:
            return _no_nseed_in_loops(node[1], in_loop, counter)
        counter[0] += 1
        j = counter[0]
        return ["nseed", _no_nseed_in_loops(node[1], in_loop, counter), j]
    return [k, _no_nseed_in_loops(node[1], in_loop, counter)] + list(node[2:])


def kinds(node, enclosing=(), acc=None):
    acc = set() if acc is None else acc
    k = node[0]
    if k == "site":
        acc.add(enclosing + (("site_ss",) if node[2] else ()))
    elif k == "seq":
        for c in node[1]:
            kinds(c, enclosing, acc)
    elif k in ("scan", "vmap"):
        kinds(node[2], enclosing + (k,), acc)
    elif k == "cond":
        kinds(node[1], enclosing + ("cond",), acc)
        kinds(node[2], enclosing + ("cond",), acc)
    elif k == "gen":
        kinds(node[1], enclosing + ("gen",), acc)
    elif k == "remat":
        kinds(node[1], enclosing + ("remat",), acc)
    elif k == "nseed":
        kinds(node[1], enclosing + ("nseed",), acc)
    return acc


def n_sites(node):
    k = node[0]
    if k == "site":
        return 1
    if k == "seq":
        return sum(n_sites(c) for c in node[1])
    if k in ("scan", "vmap"):
        return n_sites(node[2])
    if k == "cond":
        return n_sites(node[1]) + n_sites(node[2])
    return n_sites(node[1])


def build(node):
    import jax
    import jax.numpy as jnp
    import genjax
    from genjax import gen, modular_vmap, seed

    D = {"normal": genjax.normal, "uniform": genjax.uniform}
    counter = [0]
    ikey_box = {"key": None}
    loc_stack = []  # zero-valued location offsets carried by enclosing parameter-mapped vmaps

    def _off():
        return sum(loc_stack) if loc_stack else 0.0

    def _draw(nd):
        """standard-parameter draw; the *_kw variants pass the parameters by keyword (names whose sorted order differs
        from the positional order for uniform)"""
        kind, shp = nd[1], tuple(nd[2])
        extra = {"sample_shape": shp} if shp else {}
        o = _off()
        if kind == "uniform_kw":
            return genjax.uniform.sample(low=0.0 + o, high=1.0 + o, **extra)
        if kind == "normal_kw":
            return genjax.normal.sample(scale=1.0, loc=0.0 + o, **extra)
        if kind == "uniform":
            return D[kind].sample(0.0 + o, 1.0 + o, **extra)
        return D[kind].sample(0.0 + o, 1.0, **extra)

    def run(nd, scale, out, path, last):
        """Executes nd, writes draws into `out` (dict position->array), returns (a scalar summary of the draws)."""
        k = nd[0]
        if k == "site":
            v = _draw(nd)
            out[path] = v * scale
            return jnp.sum(v)
        if k == "seq":
            tot = last
            for i, c in enumerate(nd[1]):
                tot = run(c, scale, out, path + f"/{i}", tot)
            return tot
        if k == "scan":
            def body(carry, _):
                o = {}
                s = run(nd[2], scale, o, "", carry)
                return s, o

            fin, outs = jax.lax.scan(body, jnp.zeros((), jnp.float32) + 0.0 * last, jnp.arange(nd[1]))
            for p, v in outs.items():
                out[path + "/scan" + p] = v
            return fin
        if k == "vmap":
            mapped = len(nd) > 3 and nd[3] == "p"

            def lane(off=None):
                o = {}
                if mapped:
                    loc_stack.append(off)
                try:
                    s = run(nd[2], scale, o, "", jnp.zeros((), jnp.float32))
                finally:
                    if mapped:
                        loc_stack.pop()
                return s, o

            if mapped:
                ss, outs = modular_vmap(lane, in_axes=(0,))(jnp.zeros(nd[1], jnp.float32))
            else:
                ss, outs = modular_vmap(lane, in_axes=(), axis_size=nd[1])()
            for p, v in outs.items():
                out[path + "/vmap" + p] = v
            return jnp.sum(ss)
        if k == "cond":
            def br(which):
                def f(l):
                    o = {}
                    s = run(nd[1 + which], scale, o, "", l)
                    return s, o
                return f

            # both branches must return the same structure: run each in its own cond against a zero branch
            res = last
            for which in (0, 1):
                shape_probe = jax.eval_shape(br(which), jnp.zeros((), jnp.float32))
                zero = jax.tree_util.tree_map(lambda a: jnp.zeros(a.shape, a.dtype), shape_probe)
                pred = (last > 0.0) if which == 0 else (last <= 0.0)
                s, o = jax.lax.cond(pred, br(which), lambda l, zero=zero: zero, last)
                for p, v in o.items():
                    out[path + f"/cond{which}" + p] = v
                res = res + s
            return res
        if k == "nseed":
            def body(l):
                o = {}
                s = run(nd[1], scale, o, "", l)
                return s, o

            s, o = seed(body)(jax.random.fold_in(ikey_box["key"], nd[2]), last)
            for p, v in o.items():
                out[path + "/nseed" + p] = v
            return s
        if k == "remat":
            def inner(l):
                o = {}
                pre = jnp.sum(jnp.stack([l, l]) ** 2).astype(jnp.float32) * 0.0  # parameterised equations before the sites
                s = run(nd[1], scale, o, "", pre)
                return s, o

            if nd[2] == "checkpoint":
                s, o = jax.checkpoint(inner)(last)
            else:
                cf = jax.custom_jvp(inner)
                cf.defjvp(lambda p, t: (inner(p[0]), jax.tree_util.tree_map(jnp.zeros_like, inner(p[0]))))
                s, o = cf(last)
            for p, v in o.items():
                out[path + "/remat" + p] = v
            return s
        if k == "gen":
            counter[0] += 1
            sub = nd[1]

            @gen
            def g(sc):
                o = {}
                _addr_run(sub, sc, o, "", [0])
                return o

            tr = g.simulate(scale)
            o = tr.get_retval()
            for p, v in o.items():
                out[path + "/gen" + p] = v
            return jnp.sum(tr.get_score()) * 0.0 + sum(jnp.sum(v) for v in o.values())
        raise ValueError(nd)

    def _addr_run(nd, scale, out, path, cnt):
        """inside a @gen body: sites are addressed choices (numbered in program order); combinators fall back to plain sampling code"""
        k = nd[0]
        if k == "site":
            n = cnt[0]
            cnt[0] += 1
            if nd[2] or nd[1].endswith("_kw"):
                v = _draw(nd)
            else:
                o_ = _off()
                v = (D[nd[1]](0.0 + o_, 1.0 + o_) if nd[1] == "uniform" else D[nd[1]](0.0 + o_, 1.0)) @ f"a{n}"
            out[path + f"/a{n}"] = v * scale
        elif k == "seq":
            for i, c in enumerate(nd[1]):
                _addr_run(c, scale, out, path + f"/{i}", cnt)
        else:
            o = {}
            run(nd, scale, o, path, jnp.zeros((), jnp.float32))
            out.update(o)

    def f(scale=1.0, ikey=None):
        out = {}
        ikey_box["key"] = ikey
        run(node, jnp.asarray(scale, dtype=jnp.float32), out, "", jnp.zeros((), jnp.float32))
        return out

    return f
