"""Process environment for every check: import order, path pinning, per-case reset.

Import this module first.  It
  * pins genjax to the *working tree* (/repo/src, or $GENJAX_SRC for the
    sensitivity runs described in DESIGN.md section 9),
  * installs the JAX compat layer (DESIGN.md section 2) *before* genjax is imported,
  * exposes reset() which restores the global state genjax leaks between cases.

Any failure in here is a harness error (exit 2), never a VIOLATION.
"""
import os
import sys

os.environ.setdefault("JAX_PLATFORMS", "cpu")
os.environ.setdefault("PYTHONDONTWRITEBYTECODE", "1")
os.environ.setdefault("TF_CPP_MIN_LOG_LEVEL", "3")
sys.dont_write_bytecode = True

VERIF = os.path.dirname(os.path.dirname(os.path.abspath(__file__)))
REPO = os.environ.get("GENJAX_REPO", "/repo")
SRC = os.environ.get("GENJAX_SRC", os.path.join(REPO, "src"))
if VERIF not in sys.path:
    sys.path.insert(0, VERIF)
sys.path.insert(0, SRC)

import warnings  # noqa: E402

warnings.filterwarnings("ignore")

from harness import jaxcompat  # noqa: E402,F401  (must precede genjax)
import jax  # noqa: E402

import genjax  # noqa: E402

_gf = os.path.realpath(genjax.__file__)
if not _gf.startswith(os.path.realpath(SRC) + os.sep):
    raise RuntimeError(f"genjax imported from {_gf}, expected under {SRC}")

import genjax.core as _core  # noqa: E402
import genjax.pjax as _pjax  # noqa: E402


def reset():
    """Restore module-level state that genjax mutates and does not restore on exceptions."""
    try:
        del _core.handler_stack[:]
    except Exception:
        pass
    _pjax.enforce_lowering_exception = True
    _pjax.lowering_warning = False


def key(seed, *path):
    """Deterministic JAX key: fold the integer path into key(seed)."""
    k = jax.random.key(int(seed) % (2**31))
    for p in path:
        k = jax.random.fold_in(k, int(p) % (2**31))
    return k
