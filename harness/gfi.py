"""Shared oracles for the GFI block (C01-C05, C09, C10): tolerances, choice-map comparison, trace coherence."""
import numpy as np

from harness import refmodel
from harness.engine import ImplError, impl


def to_np(x):
    if isinstance(x, dict):
        return {k: to_np(v) for k, v in x.items()}
    return None if x is None else np.asarray(x)


def ref_args(case):
    """The float32-rounded argument values, as float64 (what the implementation actually sees)."""
    def one(a):
        return np.asarray(a, dtype=np.float32).astype(np.float64) if isinstance(a, (list, tuple)) else np.float64(np.float32(a))

    return [one(a) for a in case["args"]], {k: one(v) for k, v in case["kwargs"].items()}


def tol(mag, scale=1.0):
    return scale * (2e-4 + 3e-6 * abs(mag))


def close(a, b, mag=0.0, scale=1.0):
    a, b = np.asarray(a, dtype=np.float64), np.asarray(b, dtype=np.float64)
    if a.shape != b.shape:
        return False
    if not np.all(np.isfinite(a) == np.isfinite(b)):
        return False
    fin = np.isfinite(b)
    if not np.all(a[~fin] == b[~fin]):
        return False
    return bool(np.all(np.abs(a[fin] - b[fin]) <= tol(mag, scale) + 2e-6 * np.abs(b[fin])))


def retclose(a, b):
    a, b = np.asarray(a, dtype=np.float64), np.asarray(b, dtype=np.float64)
    return a.shape == b.shape and bool(np.all(np.abs(a - b) <= 2e-4 + 2e-5 * np.abs(b)))


def bit_equal(a, b):
    a, b = np.asarray(a), np.asarray(b)
    return a.shape == b.shape and a.dtype == b.dtype and bool(np.array_equal(a, b, equal_nan=True))


def ulp_close(a, b, ulps=8, floor=1.0):
    """Equal up to `ulps` units in the last place of max(|a|, |b|, floor).  The floor covers cancellation: a draw
    loc + scale * z close to 0 is rounded at the scale of its O(1) terms, and XLA contracts the multiply-add under jit."""
    a, b = np.asarray(a), np.asarray(b)
    if a.shape != b.shape or a.dtype != b.dtype:
        return False
    if a.dtype.kind != "f":
        return bool(np.array_equal(a, b))
    eps = np.finfo(a.dtype).eps
    return bool(np.all(np.abs(a.astype(np.float64) - b.astype(np.float64)) <= ulps * eps * np.maximum(np.maximum(np.abs(a), np.abs(b)).astype(np.float64), floor)))


def flat(ch):
    return refmodel.flat_leaves(ch) if isinstance(ch, dict) else {(): ch}


def jit_assess(gf):
    """One compiled assess per program (re-used for every coherence check of that program)."""
    import jax

    return jax.jit(lambda ch, a, kw: gf.assess(ch, *a, **kw))


def coherent(gf, ref, tr, rargs, rkw, jargs, jkw, tag="coherent", assess=None):
    """Trace coherence: score == -reference logp(choices), retval == reference retval,
    and genjax's own assess agrees.  Returns (fails, ref_score_result)."""
    fails = []
    try:
        ch = to_np(impl(tr.get_choices))
        score = float(impl(tr.get_score))
        ret = np.asarray(impl(tr.get_retval))
    except ImplError as e:
        return [(f"{tag}.accessor_raises:{e.sig()}", str(e))], None
    try:
        r = ref.score(rargs, rkw, ch)
    except Exception as e:  # choices not in the shape the program defines
        return [(f"{tag}.choice_map_shape", f"reference cannot read the trace's choices: {type(e).__name__}: {e}; choices={_short(ch)}")], None
    if not close(score, -r["logp"], r["mag"]):
        fails.append((f"{tag}.score", f"trace score {score} != -reference log density {-r['logp']} (|terms| {r['mag']:.3g}); choices={_short(ch)}"))
    if not retclose(ret, r["retval"]):
        fails.append((f"{tag}.retval", f"trace retval {ret} != reference retval {r['retval']}; choices={_short(ch)}"))
    try:
        if assess is not None:
            lp, rv = impl(assess, tr.get_choices(), tuple(jargs), dict(jkw))
        else:
            lp, rv = impl(gf.assess, tr.get_choices(), *jargs, **jkw)
        if not close(float(np.sum(np.asarray(lp))), -score, r["mag"]):
            fails.append((f"{tag}.score_vs_own_assess", f"trace score {score} != -assess(choices) {-float(np.sum(np.asarray(lp)))}"))
        if not retclose(rv, ret):
            fails.append((f"{tag}.retval_vs_own_assess", f"trace retval {ret} != assess retval {np.asarray(rv)}"))
    except ImplError as e:
        fails.append((f"{tag}.assess_raises:{e.sig()}", f"assess on the trace's own choices raised {e}"))
    return fails, r


def _short(ch, n=400):
    s = repr({"/".join(p): np.asarray(v).tolist() for p, v in flat(ch).items()})
    return s if len(s) <= n else s[:n] + "..."
