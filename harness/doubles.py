"""Scripted-randomness test doubles (DESIGN.md 4.4).

Inference code draws its own randomness from module-level distribution objects
(genjax.inference.mcmc.uniform/normal, genjax.inference.smc.uniform/categorical).  A Tape double has the same
.sample/.logpdf surface: .sample pops scripted values (recording the request) and .logpdf delegates to the real
object.  Installed with unittest.mock.patch.object for the duration of one case: the logic under test is untouched,
only its randomness *source* is owned by the harness.
"""
import contextlib
from unittest import mock


class Tape:
    def __init__(self, real, values=(), fn=None, name=""):
        self.real, self.values, self.fn, self.name = real, list(values), fn, name
        self.requests = []

    def sample(self, *args, **kwargs):
        import jax.numpy as jnp

        self.requests.append((args, dict(kwargs)))
        if self.fn is not None:
            return self.fn(len(self.requests) - 1, args, kwargs)
        if not self.values:
            raise AssertionError(f"tape {self.name} exhausted after {len(self.requests) - 1} draws")
        return jnp.asarray(self.values.pop(0))

    def logpdf(self, *a, **k):
        return self.real.logpdf(*a, **k)

    def __call__(self, *a, **k):
        return self.real(*a, **k)


@contextlib.contextmanager
def scripted(module, **tapes):
    with contextlib.ExitStack() as st:
        for name, tape in tapes.items():
            st.enter_context(mock.patch.object(module, name, tape))
        yield
